#!/venv/bin/python
"""Entry point:  check.py <ID> --tier quick|thorough [--replay FILE] [--only SUB]

exit 0 = property held on everything explored (known findings printed as KNOWN-FINDING)
exit 1 = unlisted violation(s), each printed as  VIOLATION property=<id> replay=<path>
exit 2 = harness error (never reported as a violation)
"""
import argparse
import importlib
import json
import os
import subprocess
import sys
import time

VERIF_DIR = os.path.dirname(os.path.abspath(__file__))
sys.path.insert(0, VERIF_DIR)
os.environ.setdefault("MPLBACKEND", "Agg")
os.environ.setdefault("OMP_NUM_THREADS", "1")
os.environ.setdefault("OPENBLAS_NUM_THREADS", "1")
os.environ.setdefault("MKL_NUM_THREADS", "1")

PROPS = {
    "C01": "props.c01_mcmc_law", "C02": "props.c02_gp_posterior", "C03": "props.c03_probs_match",
    "C04": "props.c04_limits", "C05": "props.c05_likelihoods", "C06": "props.c06_priors",
    "C07": "props.c07_hmc_traj", "C08": "props.c08_tempering", "C09": "props.c09_save_load",
    "C10": "props.c10_covariance", "C11": "props.c11_gp_scores", "C12": "props.c12_kde",
    "C13": "props.c13_sample_hdi", "C14": "props.c14_readouts", "C15": "props.c15_advance",
    "C16": "props.c16_gp_derivs", "C17": "props.c17_inversion", "C18": "props.c18_acquisition",
    "C19": "props.c19_density", "C20": "props.c20_conditional",
}


def load_subs(prop_id):
    mod = importlib.import_module(PROPS[prop_id])
    return mod, {s.name: s for s in mod.SUBCHECKS}


def regress_files(prop):
    import glob

    return sorted(glob.glob(os.path.join(VERIF_DIR, "replays", prop, "*.json")) + glob.glob(os.path.join(VERIF_DIR, "regress", prop, "*.json")))


def regress_main(args):
    """replay tier: every saved input (open-finding replays and shrunk failures from sensitivity runs) as a plain regression check"""
    from vlib import core

    t0 = time.time()
    devnull = open(os.devnull, "w")
    sys.stdout = devnull
    mod, subs = load_subs(args.prop)
    known = core.load_known(args.prop)
    found, known_hits, n, errors = [], {}, 0, []
    for path in regress_files(args.prop):
        try:
            with open(path) as f:
                rep = json.load(f)
            if os.sep + "replays" + os.sep in path and rep.get("key") not in known:
                continue    # an un-triaged replay of an earlier run: only curated inputs (open findings, regress/) are replayed
            sub = subs[rep["subcheck"]]
            import signal

            signal.signal(signal.SIGALRM, core._alarm_handler)
            signal.signal(signal.SIGPROF, core._alarm_handler)
            signal.setitimer(signal.ITIMER_PROF, sub.case_timeout[0] * 2)   # CPU time; wall clock only for a case that blocks
            signal.alarm(sub.case_timeout[0] * 10)
            try:
                key, detail = core.run_replay(args.prop, sub, rep["case"], args.tier)
            except core.HangAbort as h:
                key, detail = f"{rep['subcheck']}:hang:{h.where}", "watchdog expired while replaying a saved input"
            finally:
                signal.setitimer(signal.ITIMER_PROF, 0)
                signal.alarm(0)
            n += 1
        except Exception as e:  # a saved input that no longer parses is a harness matter, never a violation
            errors.append(f"{os.path.basename(path)}: {type(e).__name__}: {e}")
            continue
        if key is None:
            continue
        if key in known:
            known_hits.setdefault(key, {"count": 0, "case": rep["case"], "detail": detail})["count"] += 1
        elif key not in [v["key"] for v in found]:
            found.append({"key": key, "detail": f"[saved input {os.path.relpath(path, VERIF_DIR)}] {detail}", "case": rep["case"],
                          "subcheck": rep["subcheck"]})
    res = {"sub": "__replays__", "shard": 0, "shard_seed": 0, "examples": n, "distinct": n, "nontrivial_hashes": [], "events": {"saved-inputs-replayed": n},
           "samples": [], "nontrivial_samples": [], "inconclusive": {}, "worst": {}, "extra": {}, "stat_tests": [], "violations": found,
           "known_hits": known_hits, "harness_error": ("; ".join(errors) if errors else None), "wall_s": time.time() - t0}
    with open(args.out, "w") as f:
        json.dump(res, f, default=core._json_default)
    return 0


def worker_main(args):
    from vlib import core

    if args.sub == "__replays__":
        return regress_main(args)
    mod, subs = load_subs(args.prop)
    sub = subs[args.sub]
    # the library prints progress bars to stdout: discard them (results travel through the --out file)
    devnull = open(os.devnull, "w")
    sys.stdout = devnull
    res = core.run_shard(args.prop, sub, args.tier, args.seed, args.shard, args.n)
    with open(args.out, "w") as f:
        json.dump(res, f, default=core._json_default)
    return 0


def replay_main(args):
    from vlib import core

    with open(args.replay) as f:
        rep = json.load(f)
    mod, subs = load_subs(args.prop)
    sub = subs[rep["subcheck"]]
    key, detail = core.run_replay(args.prop, sub, rep["case"], args.tier)
    known = core.load_known(args.prop)
    if key is None:
        print(f"replay {args.replay}: {detail}")
        return 0
    if key in known:
        print(f"KNOWN-FINDING: property={args.prop} {key} {known[key]['what']}")
        return 0
    print(f"VIOLATION property={args.prop} replay={args.replay}")
    print(f"  key={key}\n  detail={detail}")
    return 1


def main():
    ap = argparse.ArgumentParser()
    ap.add_argument("prop")
    ap.add_argument("--tier", default=os.environ.get("VERIF_TIER", "quick"), choices=["quick", "thorough"])
    ap.add_argument("--replay")
    ap.add_argument("--only", help="comma-separated sub-check names (debugging; evidence still written)")
    ap.add_argument("--scale", type=float, default=1.0, help="multiply example counts (debugging)")
    ap.add_argument("--jobs", type=int, default=int(os.environ.get("VERIF_JOBS", "16")))
    # internal
    ap.add_argument("--sub")
    ap.add_argument("--shard", type=int, default=0)
    ap.add_argument("--n", type=int, default=0)
    ap.add_argument("--seed", type=int, default=int(os.environ.get("VERIF_SEED", "1")))
    ap.add_argument("--out")
    args = ap.parse_args()
    if args.prop not in PROPS:
        print(f"unknown property {args.prop}", file=sys.stderr)
        return 2
    if args.sub:
        return worker_main(args)
    if args.replay:
        return replay_main(args)
    return orchestrate(args)


def orchestrate(args):
    from vlib import core, evidence

    t0 = time.time()
    prop = args.prop
    try:
        mod, subs = load_subs(prop)
    except Exception:
        import traceback

        traceback.print_exc()
        print(f"HARNESS-ERROR property={prop} import failed")
        return 2
    names = list(subs)
    if args.only:
        names = [n for n in names if n in args.only.split(",")]
    workdir = os.path.join(VERIF_DIR, ".work", f"{prop}-{os.getpid()}")
    os.makedirs(workdir, exist_ok=True)
    jobs = []
    for n in names:
        s = subs[n]
        total = max(1, int(s.n_examples(args.tier) * args.scale))
        if s.n_examples(args.tier) <= 0:
            continue
        k = max(1, min(s.n_shards(args.tier), total))
        per = -(-total // k)
        for sh in range(k):
            jobs.append((s.weight * per, n, sh, per))
    jobs.sort(key=lambda j: -j[0])  # longest first
    if regress_files(prop) and not args.only:
        jobs.insert(0, (1e18, "__replays__", 0, 0))
    env = dict(os.environ)
    env["PYTHONHASHSEED"] = "0"
    env["PYTHONPATH"] = VERIF_DIR + os.pathsep + env.get("PYTHONPATH", "")
    running, results, pending = [], [], list(jobs)
    harness_errors = []
    while pending or running:
        while pending and len(running) < args.jobs:
            _, n, sh, per = pending.pop(0)
            out = os.path.join(workdir, f"{n}-{sh}.json")
            log = open(os.path.join(workdir, f"{n}-{sh}.log"), "w")
            p = subprocess.Popen(
                [sys.executable, os.path.abspath(__file__), prop, "--tier", args.tier, "--sub", n,
                 "--shard", str(sh), "--n", str(per), "--seed", str(args.seed), "--out", out],
                env=env, stdout=log, stderr=subprocess.STDOUT, cwd=VERIF_DIR,
            )
            running.append((p, n, sh, out, log))
        still = []
        for p, n, sh, out, log in running:
            rc = p.poll()
            if rc is None:
                still.append((p, n, sh, out, log))
                continue
            log.close()
            if rc == 0 and os.path.exists(out):
                with open(out) as f:
                    results.append(json.load(f))
            else:
                with open(log.name) as f:
                    tail = f.read()[-3000:]
                harness_errors.append(f"{n}[{sh}] exited {rc}: {tail}")
        running = still
        time.sleep(0.05)

    known = core.load_known(prop)
    violations, known_hits = [], {}
    for r in sorted(results, key=lambda r: (r["sub"], r["shard"])):
        if r.get("harness_error"):
            harness_errors.append(f"{r['sub']}[{r['shard']}]: {r['harness_error']}")
        for v in r["violations"]:
            violations.append((r["sub"], r["shard"], v))
        for k, h in r["known_hits"].items():
            if k not in known_hits:
                known_hits[k] = dict(h)
            else:
                known_hits[k]["count"] += h["count"]

    # write replay files, one per distinct key
    seen_keys = {}
    rep_dir = os.path.join(core.out_root(), "replays", prop)
    for subname, shard, v in violations:
        if v["key"] in seen_keys:
            continue
        os.makedirs(rep_dir, exist_ok=True)
        fname = "".join(c if c.isalnum() or c in "._-" else "_" for c in v["key"])[:120]
        path = os.path.join(rep_dir, f"{fname}-seed{args.seed}.json")
        with open(path, "w") as f:
            json.dump({"property": prop, "subcheck": v.get("subcheck", subname), "key": v["key"], "detail": v["detail"],
                       "case": v["case"], "seed": args.seed, "tier": args.tier}, f, indent=1,
                      default=core._json_default)
        seen_keys[v["key"]] = path

    wall = time.time() - t0
    ev_path, ev_error = None, None
    try:
        ev_path = evidence.write(prop, mod, subs, names, results, args, wall, seen_keys, known_hits,
                                 harness_errors)
    except Exception as e:
        ev_error = f"{type(e).__name__}: {str(e)[:300]}"

    for k, h in sorted(known_hits.items()):
        print(f"KNOWN-FINDING: property={prop} {k} {known[k]["what"][:220]} (hit {h['count']}x)")
    for k, path in sorted(seen_keys.items()):
        print(f"VIOLATION property={prop} replay={path}")
        det = [v for _, _, v in violations if v["key"] == k][0]["detail"]
        print(f"  key={k}\n  detail={det[:600]}")
    n_ex = sum(r["examples"] for r in results)
    print(f"{prop} tier={args.tier} seed={args.seed} examples={n_ex} subchecks={len(names)} "
          f"violations={len(seen_keys)} known={len(known_hits)} wall={wall:.1f}s evidence={ev_path}")
    # clean work dir
    try:
        import shutil

        shutil.rmtree(workdir)
    except Exception:
        pass
    if ev_error is not None:
        print(f"HARNESS-ERROR property={prop} evidence could not be written / validated: {ev_error}", file=sys.stderr)
        if not seen_keys:
            return 2
    if harness_errors:
        for h in harness_errors[:2]:
            print("HARNESS-ERROR", h[-1800:], file=sys.stderr)
        print(f"HARNESS-ERROR count={len(harness_errors)} property={prop}", file=sys.stderr)
        if not seen_keys:
            return 2
    return 1 if seen_keys else 0


if __name__ == "__main__":
    sys.exit(main())
