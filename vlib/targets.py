"""Recording posteriors with known laws (importable module so that instances survive fork / pickle).

A Target is built from a JSON spec; calling it returns the log-density and (optionally) appends
(theta copy, value) to `trace`.  `sleep_table` lets C08 inject per-call delays.
"""
import math
import time

import numpy as np
from scipy import stats


class Target:
    def __init__(self, spec, record=True):
        self.spec = spec
        self.kind = spec["kind"]
        self.d = int(spec["d"])
        self.record = record
        self.trace = []
        self.n_calls = 0
        self.sleep_table = None
        self.clock = None  # virtual clock (C15): object with .advance(seconds)
        self.out_dtype = spec.get("out_dtype")  # e.g. "float32": a model evaluated in single precision returns such scalars
        self.cost = 0.0
        k = self.kind
        if k == "gauss":
            self.mean = np.array(spec["mean"], dtype=float)
            L = np.array(spec["chol"], dtype=float).reshape(self.d, self.d)
            self.cov = L @ L.T
            self.prec = np.linalg.inv(self.cov)
        elif k == "cliff":
            self.edges = np.array(spec["edges"], dtype=float)   # per-coordinate cliff positions
            self.height = float(spec.get("height", 100.0))
        elif k == "expprod":
            self.rate = np.array(spec["rate"], dtype=float)
        elif k == "flat":
            pass
        elif k == "plateau":
            # flat top (log-density 0, returned as the Python int 0 - as a hand-written posterior may) with linear tails
            self.c = np.array(spec["c"], dtype=float)
            self.w = np.array(spec["w"], dtype=float)
        elif k == "cells":
            self.lo = np.array(spec["lo"], dtype=float)
            self.hi = np.array(spec["hi"], dtype=float)
            self.m = int(spec["m"])
            self.logw = np.array(spec["logw"], dtype=float).reshape([self.m] * self.d)
        elif k == "mix":
            self.mu = np.array(spec["mu"], dtype=float)      # (2, d)
            self.sd = np.array(spec["sd"], dtype=float)      # (2, d)
            self.w = float(spec["w"])
        elif k == "quartic":
            self.scale = np.array(spec["scale"], dtype=float)
        elif k == "banana":
            self.b = float(spec["b"])
        elif k == "logreg":
            g = np.random.Generator(np.random.PCG64(int(spec["data_seed"])))
            self.X = g.normal(size=(int(spec["n_data"]), self.d))
            self.y = (g.random(int(spec["n_data"])) < 0.5).astype(float)
        else:
            raise KeyError(k)

    # ------------------------------------------------------------------ density
    def logp(self, theta):
        t = np.asarray(theta, dtype=float)
        k = self.kind
        if k == "gauss":
            r = t - self.mean
            with np.errstate(all="ignore"):
                v = float(-0.5 * r @ self.prec @ r)
            # a log-density never exceeds its maximum: astronomically distant points (|r| ~ 1e154, where the quadratic form
            # overflows with mixed signs) are given what the exact value would round to
            return v if v <= 0.0 else -np.inf
        if k == "cliff":
            return float(-self.height * np.sum(t > self.edges) - 0.5 * np.sum(((t - self.edges) / 3.0) ** 2))
        if k == "expprod":
            if np.any(t < 0):
                return -1e300
            return float(-np.sum(self.rate * t))
        if k == "flat":
            return 0.0
        if k == "plateau":
            return float(-np.sum(np.maximum(np.abs(t - self.c) / self.w - 1.0, 0.0)))
        if k == "cells":
            if np.any(t < self.lo) or np.any(t > self.hi):
                return -1e300
            idx = np.minimum(((t - self.lo) / (self.hi - self.lo) * self.m).astype(int), self.m - 1)
            return float(self.logw[tuple(idx)])
        if k == "mix":
            a = np.sum(-0.5 * ((t - self.mu[0]) / self.sd[0]) ** 2 - np.log(self.sd[0]))
            b = np.sum(-0.5 * ((t - self.mu[1]) / self.sd[1]) ** 2 - np.log(self.sd[1]))
            return float(np.logaddexp(math.log(self.w) + a, math.log(1 - self.w) + b))
        if k == "quartic":
            z = t / self.scale
            return float(-np.sum(0.25 * z**4 + 0.5 * z**2))
        if k == "banana":
            return float(-0.5 * t[0] ** 2 - 0.5 * (t[1] - self.b * (t[0] ** 2 - 1)) ** 2 / 0.25 - 0.5 * np.sum(t[2:] ** 2))
        if k == "logreg":
            u = self.X @ t
            return float(np.sum(self.y * u - np.logaddexp(0.0, u)) - 0.5 * np.sum(t**2))
        raise KeyError(k)

    def grad(self, theta):
        t = np.asarray(theta, dtype=float)
        k = self.kind
        if k == "gauss":
            return -(self.prec @ (t - self.mean))
        if k == "quartic":
            z = t / self.scale
            return -(z**3 + z) / self.scale
        if k == "banana":
            g = np.zeros_like(t)
            c = (t[1] - self.b * (t[0] ** 2 - 1)) / 0.25
            g[0] = -t[0] + c * 2 * self.b * t[0]
            g[1] = -c
            g[2:] = -t[2:]
            return g
        if k == "logreg":
            u = self.X @ t
            return self.X.T @ (self.y - 1 / (1 + np.exp(-u))) - t
        if k == "mix":
            a = np.sum(-0.5 * ((t - self.mu[0]) / self.sd[0]) ** 2 - np.log(self.sd[0])) + math.log(self.w)
            b = np.sum(-0.5 * ((t - self.mu[1]) / self.sd[1]) ** 2 - np.log(self.sd[1])) + math.log(1 - self.w)
            ra = 1 / (1 + math.exp(min(b - a, 700)))
            return ra * (-(t - self.mu[0]) / self.sd[0] ** 2) + (1 - ra) * (-(t - self.mu[1]) / self.sd[1] ** 2)
        if k == "flat":
            return np.zeros_like(t)
        if k == "expprod":
            return -self.rate * np.ones_like(t)
        raise NotImplementedError(k)

    def __call__(self, theta):
        v = self.logp(theta)
        if self.kind == "plateau" and v == 0:
            v = 0
        self.n_calls += 1
        if self.record:
            self.trace.append((np.array(theta, dtype=float, copy=True), v))
        if self.clock is not None:
            self.clock.advance(self.cost)
        if self.sleep_table is not None:
            dt = self.sleep_table[(self.n_calls - 1) % len(self.sleep_table)]
            if dt > 0:
                time.sleep(dt)
        if self.out_dtype:
            with np.errstate(all="ignore"):
                v = np.dtype(self.out_dtype).type(v)
        return v

    # ------------------------------------------------------------------ exact law of pi^(1/T) (optionally restricted to a box)
    def sample(self, gen, n, T=1.0, box=None):
        k = self.kind
        d = self.d
        if k == "gauss":
            L = np.linalg.cholesky(self.cov * T)
            out = np.empty((0, d))
            while out.shape[0] < n:
                x = self.mean + gen.normal(size=(2 * n + 10, d)) @ L.T
                if box is not None:
                    x = x[np.all((x >= box[0]) & (x <= box[1]), axis=1)]
                out = np.vstack([out, x])
            return out[:n]
        if k == "expprod":
            x = gen.exponential(size=(n, d)) * (T / self.rate)
            return x
        if k == "flat":
            return gen.uniform(box[0], box[1], size=(n, d))
        if k == "cells":
            w = np.exp(self.logw / T).ravel()
            w = w / w.sum()
            idx = gen.choice(w.size, size=n, p=w)
            multi = np.array(np.unravel_index(idx, [self.m] * d)).T
            return self.lo + (multi + gen.random((n, d))) / self.m * (self.hi - self.lo)
        raise NotImplementedError(k)

    def marginal_cdf(self, i, T=1.0, box=None):
        k = self.kind
        if k == "gauss":
            s = math.sqrt(self.cov[i, i] * T)
            if box is None:
                return stats.norm(loc=self.mean[i], scale=s).cdf
            if self.d == 1 or np.allclose(self.cov, np.diag(np.diag(self.cov))):
                a, b = (box[0][i] - self.mean[i]) / s, (box[1][i] - self.mean[i]) / s
                return stats.truncnorm(a, b, loc=self.mean[i], scale=s).cdf
            return None
        if k == "expprod":
            return stats.expon(scale=T / self.rate[i]).cdf
        if k == "flat":
            return stats.uniform(loc=box[0][i], scale=box[1][i] - box[0][i]).cdf
        return None

    def cell_probs(self, T=1.0):
        w = np.exp(self.logw / T)
        return w / w.sum()
