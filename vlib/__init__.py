"""Shared machinery for the inference-tools property checks (see DESIGN.md section 2)."""
