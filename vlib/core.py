"""Runner core: sub-check definition, Hypothesis driver, known findings, evidence merge."""
import hashlib
import json
import os
import sys
import time
import traceback
from collections import Counter

VERIF_DIR = os.path.dirname(os.path.dirname(os.path.abspath(__file__)))
DEPS = os.path.join(VERIF_DIR, ".deps")
if os.path.isdir(DEPS) and DEPS not in sys.path:
    sys.path.append(DEPS)


def out_root():
    """Evidence and replays go to /verif, except for sensitivity runs against a scratch tree."""
    repo = os.environ.get("VERIF_REPO", "/repo")
    if os.path.realpath(repo) != "/repo":
        return os.path.join(VERIF_DIR, ".work", "alt-" + os.path.basename(os.path.realpath(repo)))
    return VERIF_DIR


class Violation(Exception):
    """The property is broken for this case.  key = '<classifier>' naming the failing
    call site / configuration class (the sub-check name is prepended by the runner)."""

    def __init__(self, key, detail=""):
        super().__init__(f"{key}: {detail}")
        self.key = key
        self.detail = str(detail)[:2000]


def library_crash(exc):
    """An unexpected exception whose innermost frame (among harness and library frames) lies in the
    library under test is a crash of the library on a valid input: bucket it by (type, module.function).
    Exceptions raised from harness code (including harness callbacks called by the library) are harness errors."""
    import inference

    lib = os.path.dirname(os.path.abspath(inference.__file__)) + os.sep
    last = None
    tb = exc.__traceback__
    while tb is not None:
        fn = tb.tb_frame.f_code.co_filename
        if not os.path.isabs(fn):      # compiled-extension frames ("numpy/random/_generator.pyx") belong to neither side
            tb = tb.tb_next
            continue
        fn = os.path.abspath(fn)
        if fn.startswith(lib):
            last = ("lib", fn[len(lib):], tb.tb_frame.f_code.co_name, tb.tb_lineno)
        elif fn.startswith(VERIF_DIR + os.sep):
            last = ("harness", fn, tb.tb_frame.f_code.co_name, tb.tb_lineno)
        tb = tb.tb_next
    if last is None or last[0] != "lib":
        return None
    mod = last[1].replace(os.sep, ".").removesuffix(".py")
    return f"crash:{type(exc).__name__}:{mod}.{last[2]}", f"{type(exc).__name__}: {exc} (at {last[1]}:{last[3]})"


class HangAbort(BaseException):
    """a case body exceeded the (very generous) per-case watchdog; the search of this shard stops here"""

    def __init__(self, where):
        super().__init__(where)
        self.where = where


def _alarm_handler(signum, frame):
    import inference

    lib = os.path.dirname(os.path.abspath(inference.__file__)) + os.sep
    # the innermost LIBRARY frame on the stack (harness callbacks such as recording posteriors called from a
    # library loop are skipped); only if no library frame is active is the harness itself looping
    where = None
    first_harness = None
    f = frame
    while f is not None:
        fn = os.path.abspath(f.f_code.co_filename)
        if fn.startswith(lib):
            where = fn[len(lib):].replace(os.sep, ".").removesuffix(".py") + "." + f.f_code.co_name
            break
        if first_harness is None and fn.startswith(VERIF_DIR + os.sep):
            first_harness = "harness:" + os.path.basename(fn) + ":" + f.f_code.co_name
        f = f.f_back
    raise HangAbort(where or first_harness or "harness")


class Inconclusive(Exception):
    """The case cannot be decided (stencil did not converge, ill-conditioned, ...)."""

    def __init__(self, reason):
        super().__init__(reason)
        self.reason = reason


class Sub:
    """One named sub-check of a property."""

    def __init__(self, name, strategy, body, quick, thorough, rule,
                 shards_quick=1, shards_thorough=4, weight=1.0, needs_fork=False,
                 shrink_budget=(45, 240), case_timeout=(60, 240), shrink=True):
        self.name = name
        self.strategy = strategy  # callable tier -> hypothesis strategy producing JSON-able case
        self.body = body  # body(case, ctx)
        self.quick = quick
        self.thorough = thorough
        self.rule = rule
        self.shards_quick = shards_quick
        self.shards_thorough = shards_thorough
        self.weight = weight
        self.needs_fork = needs_fork
        self.shrink_budget = shrink_budget
        self.case_timeout = case_timeout
        self.shrink = shrink

    def n_examples(self, tier):
        return self.quick if tier == "quick" else self.thorough

    def n_shards(self, tier):
        return self.shards_quick if tier == "quick" else self.shards_thorough


def canon(case):
    return json.dumps(case, sort_keys=True, separators=(",", ":"), default=_json_default)


def _json_default(o):
    import numpy as np

    if isinstance(o, (np.integer,)):
        return int(o)
    if isinstance(o, (np.floating,)):
        return float(o)
    if isinstance(o, np.ndarray):
        return o.tolist()
    if isinstance(o, (np.bool_,)):
        return bool(o)
    raise TypeError(f"not JSON-able: {type(o)}")


def case_hash(case):
    return hashlib.sha1(canon(case).encode()).hexdigest()[:16]


def derive_seed(base, *parts):
    h = hashlib.sha256((":".join([str(base)] + [str(p) for p in parts])).encode()).digest()
    return int.from_bytes(h[:4], "big")


class Ctx:
    """Per-shard collector handed to every body call."""

    def __init__(self, tier, replay=False):
        self.tier = tier
        self.replay = replay
        self.events = Counter()
        self.nontrivial_hashes = set()
        self.all_hashes = set()
        self.samples = []
        self.nontrivial_samples = []
        self.examples = 0
        self.inconclusive = Counter()
        self.worst = {}  # label -> max observed error/tolerance ratio
        self.extra = {}  # free-form numeric accumulators (sums)
        self.stat_tests = []
        self._cur_hash = None
        self._cur_case = None
        self._in_hyp = False

    # -- called by the driver
    def begin(self, case):
        self.examples += 1
        self._cur_case = case
        self._cur_hash = case_hash(case)
        self.all_hashes.add(self._cur_hash)
        if len(self.samples) < 3:
            self.samples.append(json.loads(canon(case)))

    # -- called by bodies
    def nontrivial(self, flag=True):
        if flag and self._cur_hash is not None:
            if self._cur_hash not in self.nontrivial_hashes:
                self.nontrivial_hashes.add(self._cur_hash)
                if len(self.nontrivial_samples) < 3:
                    self.nontrivial_samples.append(json.loads(canon(self._cur_case)))

    def event(self, label, n=1):
        self.events[str(label)] += n

    def add(self, label, value):
        self.extra[label] = self.extra.get(label, 0) + value

    def ratio(self, label, err, tol):
        """Record observed error / tolerance; guide the search toward large ratios."""
        r = float(err) / float(tol) if tol > 0 else (0.0 if err == 0 else float("inf"))
        if r != r:
            r = float("inf")
        if r > self.worst.get(label, 0.0):
            self.worst[label] = r
        if self._in_hyp and r == r and r != float("inf"):
            try:
                import hypothesis

                hypothesis.target(min(r, 1e6), label=label)
            except Exception:
                pass
        return r

    def stat(self, **kw):
        if len(self.stat_tests) < 400:
            self.stat_tests.append(kw)


def load_known(prop_id):
    path = os.path.join(VERIF_DIR, "known_findings.json")
    if not os.path.exists(path):
        return {}
    with open(path) as f:
        data = json.load(f)
    out = {}
    for e in data.get("findings", []):
        if e.get("property") == prop_id and e.get("status") == "open":
            out[e["key"]] = e
    return out


def hyp_settings(n, tier, shrink=True):
    from hypothesis import settings, HealthCheck, Phase

    phases = [Phase.explicit, Phase.generate, Phase.target]
    if shrink:
        phases.append(Phase.shrink)
    return settings(
        max_examples=max(1, n),
        database=None,
        deadline=None,
        derandomize=False,
        report_multiple_bugs=False,
        print_blob=False,
        phases=phases,
        suppress_health_check=[HealthCheck.too_slow, HealthCheck.data_too_large,
                               HealthCheck.large_base_example],
        stateful_step_count=50,
    )


def run_shard(prop_id, sub, tier, seed, shard, n_examples):
    """Worker: drive one shard of a sub-check with Hypothesis; return a JSON-able dict."""
    from hypothesis import given, seed as hseed
    from . import rngctl

    t0 = time.time()
    ctx = Ctx(tier)
    known = load_known(prop_id)
    found = []  # unlisted violations: dict(key, detail, case)
    known_hits = {}
    excluded = set()  # keys already reported in this shard (search continues behind them)
    harness_error = None
    shard_seed = derive_seed(seed, prop_id, sub.name, shard)
    budget = sub.shrink_budget[0 if tier == "quick" else 1]
    timeout = sub.case_timeout[0 if tier == "quick" else 1]
    import signal

    # the watchdog counts the CPU time of this process (ITIMER_PROF), so a machine that runs many checks at once does not turn a slow
    # case into a "hang"; a case that blocks without using CPU (a worker process that never answers) is caught by a wall-clock alarm
    # three times as long
    signal.signal(signal.SIGALRM, _alarm_handler)
    signal.signal(signal.SIGPROF, _alarm_handler)
    hangs = 0
    strategy = sub.strategy(tier)
    remaining = n_examples

    for _round in range(4):
        state = {"first_fail_t": None, "best": None, "best_key": None, "best_detail": None, "failing": {}, "gen": 0}

        def wrapped(case):
            ctx.begin(case)
            if state["first_fail_t"] is None:
                state["gen"] += 1   # examples of the generation phase (shrinking replays are not charged to the budget)
            expired = state["first_fail_t"] is not None and (time.time() - state["first_fail_t"]) > budget
            if expired:
                # shrink budget used up: answer from memory so the shrinker finishes quickly
                hit = state["failing"].get(canon(case))
                if hit is None:
                    return
                state["best"] = json.loads(canon(case))
                state["best_detail"] = hit[1]
                raise Violation(hit[0], hit[1])
            rngctl.reset(case.get("seed", 0) if isinstance(case, dict) else 0)
            try:
                ctx._in_hyp = True
                try:
                    state["current"] = case
                    signal.setitimer(signal.ITIMER_PROF, timeout)
                    signal.alarm(3 * timeout)
                    c0, w0 = time.process_time(), time.time()
                    try:
                        sub.body(case, ctx)
                    finally:
                        signal.setitimer(signal.ITIMER_PROF, 0)
                        signal.alarm(0)
                        # how close the slowest case came to the watchdog (reported with the other margins in the evidence)
                        ctx.worst["watchdog: cpu seconds of the slowest case / limit"] = max(
                            ctx.worst.get("watchdog: cpu seconds of the slowest case / limit", 0.0), (time.process_time() - c0) / timeout)
                        ctx.worst["watchdog: wall seconds of the slowest case / limit"] = max(
                            ctx.worst.get("watchdog: wall seconds of the slowest case / limit", 0.0), (time.time() - w0) / (3 * timeout))
                except (Violation, Inconclusive):
                    raise
                except Exception as e:
                    crash = library_crash(e)
                    if crash is None:
                        raise
                    raise Violation(*crash) from None
            except Violation as v:
                full = f"{sub.name}:{v.key}"
                if full in known:
                    if full not in known_hits:
                        known_hits[full] = {"count": 0, "case": json.loads(canon(case)), "detail": v.detail}
                    known_hits[full]["count"] += 1
                    ctx.event("known:" + full)
                    return
                if full in excluded:
                    ctx.event("excluded_reported:" + full)
                    return
                if state["best_key"] is not None and full != state["best_key"]:
                    # shrinker slipped to a different failure: do not follow it
                    return
                if state["first_fail_t"] is None:
                    state["first_fail_t"] = time.time()
                state["best"] = json.loads(canon(case))
                state["failing"][canon(case)] = (v.key, v.detail)
                state["best_key"] = full
                state["best_detail"] = v.detail
                raise
            except Inconclusive as e:
                ctx.inconclusive[e.reason] += 1
                return
            finally:
                ctx._in_hyp = False

        test = hseed(derive_seed(shard_seed, _round))(
            hyp_settings(remaining, tier, shrink=sub.shrink)(given(strategy)(wrapped))
        )
        before = ctx.examples
        try:
            test()
            break
        except Violation:
            found.append({"key": state["best_key"], "detail": state["best_detail"], "case": state["best"]})
            excluded.add(state["best_key"])
            remaining = remaining - state["gen"]
            if remaining <= 0:
                break
            continue
        except HangAbort as h:
            hangs += 1
            if h.where.startswith("harness"):
                harness_error = f"watchdog ({timeout}s) expired inside harness code at {h.where}"
                break
            key = f"{sub.name}:hang:{h.where}"
            if key in known:
                known_hits.setdefault(key, {"count": 0, "case": json.loads(canon(state.get("current"))), "detail": "watchdog"})["count"] += 1
            else:
                found.append({"key": key, "detail": f"no return after {timeout} s of CPU time (a case of this sub-check normally takes well under a second); innermost library frame {h.where}",
                              "case": json.loads(canon(state.get("current")))})
            excluded.add(key)
            remaining = remaining - state["gen"]
            if remaining <= 0:
                break
            if hangs >= 2:
                break
            continue
        except BaseException as e:  # harness error (health check, bug in the check, ...)
            if state["best_key"] is not None:
                # Hypothesis wraps flaky failures etc.; keep what we know
                found.append({"key": state["best_key"], "detail": state["best_detail"], "case": state["best"],
                              "note": "hypothesis raised %s" % type(e).__name__})
                excluded.add(state["best_key"])
                continue
            harness_error = "".join(traceback.format_exception(type(e), e, e.__traceback__))[-6000:]
            break

    return {
        "sub": sub.name,
        "shard": shard,
        "shard_seed": shard_seed,
        "examples": ctx.examples,
        "distinct": len(ctx.all_hashes),
        "nontrivial_hashes": sorted(ctx.nontrivial_hashes),
        "events": dict(ctx.events),
        "samples": ctx.samples,
        "nontrivial_samples": ctx.nontrivial_samples,
        "inconclusive": dict(ctx.inconclusive),
        "worst": ctx.worst,
        "extra": ctx.extra,
        "stat_tests": ctx.stat_tests,
        "violations": found,
        "known_hits": known_hits,
        "harness_error": harness_error,
        "wall_s": time.time() - t0,
    }


def run_replay(prop_id, sub, case, tier="quick"):
    """Plain regression run of a saved case, bypassing Hypothesis."""
    from . import rngctl

    ctx = Ctx(tier, replay=True)
    ctx.begin(case)
    rngctl.reset(case.get("seed", 0) if isinstance(case, dict) else 0)
    try:
        try:
            sub.body(case, ctx)
        except (Violation, Inconclusive):
            raise
        except Exception as e:
            crash = library_crash(e)
            if crash is None:
                raise
            raise Violation(*crash) from None
    except Violation as v:
        return f"{sub.name}:{v.key}", v.detail
    except Inconclusive as e:
        return None, "inconclusive: " + e.reason
    return None, "held"
