"""Container / dtype forms in which a caller may legitimately hold the same numbers.

A property quantified over "all data / all points / all hyper-parameters" covers whole-number values held in an integer array or
a list of Python ints, single-precision arrays, non-contiguous views and so on.  `cast(values, form)` returns the given values in
the requested form *without changing them* (callers pick forms that can represent the values exactly: `integral_ok(values)`).
"""
import numpy as np
from hypothesis import strategies as st

FLOAT_FORMS = ["float64", "float64", "list", "tuple", "strided", "fortran"]
INT_FORMS = ["int64", "int32", "uint8", "uint16", "list-int", "int-strided"]


def integral_ok(values, lo=None, hi=None):
    a = np.asarray(values, dtype=float)
    ok = np.all(np.isfinite(a)) and np.all(a == np.round(a)) and np.all(np.abs(a) < 2**31)
    if lo is not None:
        ok = ok and np.all(a >= lo)
    if hi is not None:
        ok = ok and np.all(a <= hi)
    return bool(ok)


def cast(values, form):
    a = np.array(values, dtype=float)
    if form in ("float64", None):
        return a.copy()
    if form == "float32-exact":
        assert np.array_equal(a.astype(np.float32).astype(float), a)
        return a.astype(np.float32)
    if form == "list":
        return a.tolist()
    if form == "tuple":
        return tuple(a.tolist()) if a.ndim == 1 else tuple(tuple(r) for r in a.tolist())
    if form == "strided":
        big = np.zeros((a.shape[0] * 2,) + a.shape[1:])
        big[::2] = a
        return big[::2]
    if form == "fortran":
        return np.asfortranarray(a)
    if form in ("int64", "int32", "uint8", "uint16", "uint64", "int8", "int16"):
        out = a.astype(form)
        assert np.array_equal(out.astype(float), a), "values not representable in " + form
        return out
    if form == "list-int":
        assert integral_ok(a)
        return np.round(a).astype(np.int64).tolist()
    if form == "int-strided":
        big = np.zeros((a.shape[0] * 2,) + a.shape[1:], dtype=np.int64)
        big[::2] = np.round(a).astype(np.int64)
        return big[::2]
    raise KeyError(form)


def representable(values, form):
    a = np.asarray(values, dtype=float)
    if form in ("float64", None, "list", "tuple", "strided", "fortran"):
        return True
    if form == "float32-exact":
        return bool(np.array_equal(a.astype(np.float32).astype(float), a))
    if not integral_ok(a):
        return False
    info = {"int64": (-2**62, 2**62), "int32": (-2**31, 2**31 - 1), "uint8": (0, 255), "uint16": (0, 65535), "uint64": (0, 2**62),
            "int8": (-128, 127), "int16": (-32768, 32767), "list-int": (-2**62, 2**62), "int-strided": (-2**62, 2**62)}[form]
    return bool(np.all(a >= info[0]) and np.all(a <= info[1]))


def forms(int_share=0.3):
    """strategy: a form name; integer forms with the given share"""
    return st.one_of(st.sampled_from(FLOAT_FORMS), st.sampled_from(INT_FORMS)) if int_share else st.sampled_from(FLOAT_FORMS)
