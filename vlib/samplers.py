"""Strategies producing JSON sampler configurations, and builders turning them into library objects."""
import warnings

import numpy as np
from hypothesis import strategies as st

from . import rngctl
from .targets import Target

CLASSES = ["metropolis", "gibbs", "pca", "hmc", "ensemble"]
unit = st.floats(0.0, 1.0)


@st.composite
def target_specs(draw, d, kinds=("gauss", "gauss", "cliff", "mix")):
    kind = draw(st.sampled_from(list(kinds)))
    if kind == "gauss":
        sd = [10 ** draw(st.floats(-1, 1)) for _ in range(d)]
        L = [[0.0] * d for _ in range(d)]
        for i in range(d):
            for j in range(i):
                L[i][j] = draw(st.floats(-0.8, 0.8)) * sd[i]
            L[i][i] = sd[i]
        return {"kind": "gauss", "d": d, "mean": [draw(st.floats(-3, 3)) for _ in range(d)], "chol": L}
    if kind == "cliff":
        return {"kind": "cliff", "d": d, "edges": [draw(st.floats(-1, 1)) for _ in range(d)], "height": 100.0}
    if kind == "mix":
        return {"kind": "mix", "d": d, "mu": [[draw(st.floats(-3, 0)) for _ in range(d)], [draw(st.floats(0, 3)) for _ in range(d)]],
                "sd": [[draw(st.floats(0.3, 1.5)) for _ in range(d)], [draw(st.floats(0.3, 1.5)) for _ in range(d)]],
                "w": draw(st.floats(0.2, 0.8))}
    if kind == "quartic":
        return {"kind": "quartic", "d": d, "scale": [10 ** draw(st.floats(-0.5, 0.5)) for _ in range(d)]}
    if kind == "banana":
        return {"kind": "banana", "d": max(d, 2), "b": draw(st.floats(0, 0.5))}
    if kind == "logreg":
        return {"kind": "logreg", "d": d, "n_data": draw(st.integers(5, 30)), "data_seed": draw(st.integers(0, 10**6))}
    if kind == "flat":
        return {"kind": "flat", "d": d}
    if kind == "plateau":
        return {"kind": "plateau", "d": d, "c": [draw(st.floats(-2, 2)) for _ in range(d)], "w": [10 ** draw(st.floats(-0.5, 0.5)) for _ in range(d)]}
    raise KeyError(kind)


@st.composite
def sampler_configs(draw, classes=CLASSES, max_d=4, target_kinds=("gauss", "gauss", "cliff", "mix"), bounds="maybe",
                    temperature="maybe", progress=(True, False)):
    cls = draw(st.sampled_from(list(classes)))
    d = draw(st.integers(1, max_d))
    kinds = tuple(k for k in target_kinds if not (cls == "hmc" and k in ("cliff", "flat", "cells", "plateau"))) or ("gauss",)
    tgt = draw(target_specs(d, kinds))
    d = tgt["d"]
    cfg = {"seed": draw(st.integers(0, 2**31)), "cls": cls, "d": d, "target": tgt,
           "start_u": [draw(st.floats(-1, 1)) for _ in range(d)],
           "width_log": [draw(st.floats(-1.3, 1.3)) for _ in range(d)],
           "T": 1.0, "bounds": None, "display_progress": draw(st.sampled_from(list(progress))),
           "caller_reuses_arrays": draw(st.sampled_from([False, False, True]))}
    if temperature == "maybe" and cls != "ensemble" and draw(st.booleans()):
        cfg["T"] = draw(st.sampled_from([0.3, 0.5, 2.0, 3.0, 10.0, 50.0, 1.9, 6.3, draw(st.floats(0.3, 50))]))
    want_bounds = (bounds == "always") or (bounds == "maybe" and draw(st.booleans()))
    if want_bounds and cls in ("pca", "hmc", "ensemble"):
        half = [10 ** draw(st.floats(-0.7, 1.0)) for _ in range(d)]
        off = [draw(st.floats(-0.8, 0.8)) for _ in range(d)]
        cfg["bounds"] = {"half": half, "off": off, "form": draw(st.sampled_from(["tuple", "Bounds"]))}
    if cls == "hmc":
        cfg["hmc"] = {"eps_log": draw(st.floats(-2.0, -0.3)), "mass": draw(st.sampled_from(["default", "scalar", "vector", "matrix"])),
                      "mass_log": [draw(st.floats(-1, 1)) for _ in range(d)], "mass_corr": draw(st.floats(-0.6, 0.6)),
                      "grad": draw(st.booleans()),
                      # whole-number inverse masses may be given as Python ints / integer arrays
                      "mass_int": draw(st.sampled_from([False, False, False, True, "int8", "uint8"])),
                      # a matrix obtained by inverting a Hessian (symmetric up to the last bit), a scalar held in a 0-d array
                      "mass_form": draw(st.sampled_from([None, None, "computed", "computed"]))}
    if cls == "ensemble":
        cfg["ens"] = {"extra_walkers": draw(st.integers(1, 6)), "alpha": draw(st.sampled_from([2.0, 1.5, 3.0, draw(st.floats(1.2, 5))])),
                      # whole-number starting positions may be held in an integer array
                      "pos_int": draw(st.sampled_from([False, False, False, True])),
                      # one parameter: the starting positions may be a 1-D array (documented as accepted)
                      "pos_1d": draw(st.booleans())}
    if cls in ("gibbs", "metropolis"):
        lim = []
        if bounds != "never":
            for i in range(d):
                # "both": declared non-negative AND given boundaries (whose lower end may be negative): support [max(lower, 0), upper]
                lim.append(draw(st.sampled_from(["none", "none", "bounded", "nonneg", "both"])))
        cfg["limits"] = lim
        # the documented default proposal widths (5% of the start values) instead of explicit ones
        cfg["default_widths"] = draw(st.sampled_from([False, False, False, False, True]))
        cfg["limit_half"] = [10 ** draw(st.floats(-0.7, 1.0)) for _ in range(d)]
    return cfg


def centre_scale(cfg):
    t = cfg["target"]
    d = cfg["d"]
    if t["kind"] == "gauss":
        c = np.array(t["mean"], dtype=float)
        L = np.array(t["chol"], dtype=float).reshape(d, d)
        s = np.sqrt(np.diag(L @ L.T))
    elif t["kind"] == "cliff":
        c, s = np.array(t["edges"], dtype=float), np.full(d, 3.0)
    elif t["kind"] == "mix":
        c, s = np.zeros(d), np.full(d, 2.0)
    elif t["kind"] == "quartic":
        c, s = np.zeros(d), np.array(t["scale"], dtype=float)
    elif t["kind"] == "plateau":
        c, s = np.array(t["c"], dtype=float), 2.0 * np.array(t["w"], dtype=float)
    else:
        c, s = np.zeros(d), np.ones(d)
    return c, s * np.sqrt(cfg.get("T", 1.0))


def box_of(cfg):
    if cfg.get("bounds") is None:
        return None
    c, s = centre_scale(cfg)
    if cfg["bounds"].get("abs_box"):
        return np.array(cfg["bounds"]["abs_box"][0], dtype=float), np.array(cfg["bounds"]["abs_box"][1], dtype=float)
    half = np.array(cfg["bounds"]["half"]) * s
    mid = c + np.array(cfg["bounds"]["off"]) * half
    lo, hi = mid - half, mid + half
    if cfg["bounds"].get("dtype"):
        # whole-number limits (so that an integer / narrow array can hold them: see bounds_dtype)
        lo, hi = np.floor(lo), np.ceil(hi)
        hi = np.where(hi <= lo, lo + 1.0, hi)
    return lo, hi


def bounds_dtype(cfg, lo, hi):
    """the dtype in which the limits are handed over: the requested one if it holds them exactly, else float64"""
    dt = (cfg.get("bounds") or {}).get("dtype")
    if not dt:
        return float
    ok = all(np.array_equal(a.astype(dt).astype(float), a) for a in (lo, hi))
    return dt if ok else float


def start_of(cfg):
    c, s = centre_scale(cfg)
    x = c + np.array(cfg["start_u"]) * s
    box = box_of(cfg)
    if box is not None:
        lo, hi = box
        x = np.clip(lo + (np.array(cfg["start_u"]) + 1) / 2 * (hi - lo), lo, hi)
    if cfg["cls"] in ("gibbs", "metropolis"):
        for i, kind in enumerate(cfg.get("limits", [])):
            kind = limit_kind(cfg, i)
            if kind == "nonneg":
                x[i] = abs(x[i])
            elif kind in ("bounded", "both"):
                lo, hi = support_interval(cfg, i)
                x[i] = min(max(lo + (cfg["start_u"][i] + 1) / 2 * (hi - lo), lo), hi)
    return x


def gibbs_interval(cfg, i):
    """the boundaries declared with set_boundaries"""
    c, s = centre_scale(cfg)
    h = cfg["limit_half"][i] * s[i]
    return float(c[i] - 0.7 * h), float(c[i] + 1.3 * h)


def limit_kind(cfg, i):
    """'both' needs an upper boundary above zero to be a consistent declaration; otherwise the parameter is only bounded"""
    kind = cfg["limits"][i]
    if kind == "both" and gibbs_interval(cfg, i)[1] <= 0:
        return "bounded"
    return kind


def support_interval(cfg, i):
    lo, hi = gibbs_interval(cfg, i)
    return (max(lo, 0.0), hi) if limit_kind(cfg, i) == "both" else (lo, hi)


def widths_of(cfg):
    c, s = centre_scale(cfg)
    return s * 10.0 ** np.array(cfg["width_log"])


def build(cfg, target=None, record=True):
    """returns (sampler, target, info) - info holds the caller-owned input arrays"""
    from inference.mcmc import GibbsChain, PcaChain, HamiltonianChain, EnsembleSampler, Bounds
    from inference.mcmc.gibbs import MetropolisChain

    tgt = target if target is not None else Target(cfg["target"], record=record)
    d = cfg["d"]
    start = start_of(cfg)
    widths = widths_of(cfg)
    box = box_of(cfg)
    # the numeric types in which the caller holds the same numbers (cfg["prec"]): single-precision start / widths, a temperature or
    # mass taken from a numpy array (numpy scalar), a matrix mass that is a strided view
    prec = cfg.get("prec") or {}
    T_arg = cfg["T"]
    if prec.get("T") == "numpy":
        T_arg = np.array([cfg["T"]])[0]
    elif prec.get("T") in ("float32", "float16") and float(np.dtype(prec["T"]).type(cfg["T"])) == cfg["T"]:
        T_arg = np.dtype(prec["T"]).type(cfg["T"])       # (a temperature such as 3.0 or 0.5, taken from a single-/half-precision array)
    if prec.get("widths") == "float32":
        widths = widths.astype(np.float32)
    if prec.get("start") == "float32" and box is None and not cfg.get("limits"):
        start = start.astype(np.float32)
    info = {"start": start, "widths": widths, "box": box}
    kw = {"display_progress": cfg.get("display_progress", True)}
    bounds_arg = None
    if box is not None:
        lo, hi = box[0].copy(), box[1].copy()
        info["lo"], info["hi"] = lo, hi
        dt = bounds_dtype(cfg, lo, hi)
        info["bounds_dtype"] = str(dt)
        with np.errstate(all="ignore"):
            lo, hi = lo.astype(dt), hi.astype(dt)
        bounds_arg = Bounds(lower=lo, upper=hi) if cfg["bounds"]["form"] == "Bounds" else (lo, hi)
    cls = cfg["cls"]
    with warnings.catch_warnings():
        warnings.simplefilter("ignore")
        if cls in ("gibbs", "metropolis"):
            C = GibbsChain if cls == "gibbs" else MetropolisChain
            ch = C(posterior=tgt, start=start, widths=None if cfg.get("default_widths") else widths, temperature=T_arg, **kw)
            for i in range(len(cfg.get("limits", []))):
                kind = limit_kind(cfg, i)
                if kind in ("bounded", "both"):
                    ch.set_boundaries(i, gibbs_interval(cfg, i))
                if kind in ("nonneg", "both"):
                    ch.set_non_negative(i, True)
        elif cls == "pca":
            ch = PcaChain(posterior=tgt, start=start, widths=widths, temperature=T_arg, bounds=bounds_arg, **kw)
        elif cls == "hmc":
            h = cfg["hmc"]
            c, s = centre_scale(cfg)
            inv_mass = None
            if h["mass"] == "scalar":
                inv_mass = float(np.mean(s) ** 2 * 10 ** h["mass_log"][0])
            elif h["mass"] == "vector":
                inv_mass = s**2 * 10.0 ** np.array(h["mass_log"])
            elif h["mass"] == "matrix":
                sd = s * 10.0 ** (0.5 * np.array(h["mass_log"]))
                R = np.eye(d)
                for i in range(1, d):
                    R[i, i - 1] = R[i - 1, i] = h["mass_corr"]
                inv_mass = R * np.outer(sd, sd)
                inv_mass = (inv_mass + inv_mass.T) / 2
            if h.get("mass_int") and h["mass"] == "scalar":
                inv_mass = int(max(1, round(inv_mass)))
            elif h.get("mass_int") and h["mass"] == "vector":
                # (whole-number masses in an integer array; narrow types if they can hold them)
                inv_mass = np.maximum(1, np.round(inv_mass))
                inv_mass = inv_mass.astype(h["mass_int"] if isinstance(h["mass_int"], str) and inv_mass.max() <= 127 else np.int64)
            if h.get("mass_form") == "computed" and h["mass"] == "matrix":
                inv_mass = np.linalg.inv(np.linalg.inv(inv_mass))        # what a user computes from a Hessian: not bit-symmetric
            elif h.get("mass_form") == "computed" and h["mass"] == "scalar" and not h.get("mass_int"):
                inv_mass = np.array(inv_mass)                            # a 0-d array (np.load of a saved scalar, .squeeze())
            if prec.get("mass") == "view" and h["mass"] == "matrix":
                big = np.zeros((2 * d, 2 * d))
                big[::2, ::2] = inv_mass
                inv_mass = big[::2, ::2]
            elif prec.get("mass") == "view" and h["mass"] == "vector":
                big = np.zeros(2 * d)
                big[::2] = inv_mass
                inv_mass = big[::2]
            elif prec.get("mass") == "view" and h["mass"] == "scalar":
                inv_mass = np.array([inv_mass])[0]          # a numpy scalar
            info["inv_mass"] = inv_mass
            eps = float(np.min(s)) * 10 ** h["eps_log"]
            if inv_mass is not None:
                # keep epsilon * sqrt(inv_mass) / s of order 10**eps_log
                scale = np.sqrt(np.max(np.linalg.eigvalsh(np.atleast_2d(inv_mass)))) if np.ndim(inv_mass) == 2 else np.sqrt(np.max(inv_mass))
                eps = float(np.min(s)) * 10 ** h["eps_log"] / float(scale)
            info["epsilon"] = eps
            ch = HamiltonianChain(posterior=tgt, start=start, grad=(GradRecorder(tgt) if h["grad"] else None), epsilon=eps,
                                  temperature=T_arg, bounds=bounds_arg, inverse_mass=inv_mass, **kw)
        elif cls == "ensemble":
            n_w = d + cfg["ens"]["extra_walkers"] + 1
            g = rngctl.rng(cfg["seed"], 21)
            c, s = centre_scale(cfg)
            if box is None and cfg["target"]["kind"] == "plateau":
                # every walker starts on the flat top, where the posterior returns the integer 0
                pos = np.array(cfg["target"]["c"])[None, :] + np.array(cfg["target"]["w"])[None, :] * g.uniform(-0.9, 0.9, size=(n_w, d))
            elif box is None:
                pos = start[None, :] + s[None, :] * g.normal(size=(n_w, d))
            else:
                pos = box[0][None, :] + g.uniform(0.05, 0.95, size=(n_w, d)) * (box[1] - box[0])[None, :]
            if cfg["ens"].get("pos_int"):
                ipos = np.round(pos)
                inside = box is None or (np.all(ipos >= box[0]) and np.all(ipos <= box[1]))
                if inside and np.linalg.matrix_rank(ipos - ipos.mean(axis=0)) == d and len({tuple(r) for r in ipos.tolist()}) == n_w:
                    pos = ipos.astype(np.int64)
            if d == 1 and cfg["ens"].get("pos_1d"):
                pos = pos[:, 0].copy()
            info["positions"] = pos
            ch = EnsembleSampler(posterior=tgt, starting_positions=pos, alpha=cfg["ens"]["alpha"], bounds=bounds_arg, **kw)
        else:
            raise KeyError(cls)
    if cfg.get("caller_reuses_arrays"):
        # the arrays handed to the constructor are the caller's: it may go on using them (a work buffer refilled for the next chain of
        # a ladder, limits rewritten for a second sampler).  `info` keeps the values that were handed over; the arrays themselves are
        # overwritten here, and nothing the sampler does afterwards may depend on that.
        handed = {"start": start, "widths": widths, "positions": info.get("positions"), "inv_mass": info.get("inv_mass")}
        if box is not None:
            handed["lo"], handed["hi"] = lo, hi
        for k, a in handed.items():
            if isinstance(a, np.ndarray) and a.flags.writeable and a.dtype.kind in "fiu":
                if k in info:
                    info[k] = a.copy()
                with np.errstate(all="ignore"):
                    if a.dtype.kind == "f":
                        a += 1e3 * (1.0 + np.abs(a))
                    else:
                        a[...] = np.iinfo(a.dtype).max - (a % 7).astype(a.dtype)
        info["caller_reused_arrays"] = True
    return ch, tgt, info


class GradRecorder:
    """picklable gradient callable that records where it was evaluated"""

    def __init__(self, target, dtype=None):
        self.target = target
        self.points = []
        self.dtype = dtype if dtype is not None else target.spec.get("grad_dtype")

    def __call__(self, theta):
        self.points.append(np.array(theta, dtype=float, copy=True))
        g = self.target.grad(theta)
        return np.asarray(g).astype(self.dtype) if self.dtype else g


def n_stored(ch):
    """rows of the full read-out"""
    return len(np.asarray(ch.get_probabilities(burn=0)))


def walkers(cfg):
    return cfg["d"] + cfg["ens"]["extra_walkers"] + 1 if cfg["cls"] == "ensemble" else 1
