"""Reference covariance / mean functions written from the documented formulas, plus builders
that turn a JSON kernel spec into the library's objects.

spec grammar:  {"k": "SE"|"RQ"|"White"|"Hetero"}
               {"k": "Sum", "parts": [spec, ...]}
               {"k": "CP",  "parts": [spec, spec, ...], "axis": int}
theta layouts follow the documentation: SE [ln A, ln l_1..l_d]; RQ [ln A, ln alpha, ln l_1..l_d];
White [ln sigma]; Hetero [ln sigma_1..ln sigma_n]; Sum = concatenation; CP = kernels' parameters
in order followed by (location, width) per change-point.
"""
import math

import numpy as np

JITTER = 1e-12  # documented "small values added to the diagonal for stability" (times A^2)


def n_params(spec, n, d):
    k = spec["k"]
    if k == "SE":
        return d + 1
    if k == "RQ":
        return d + 2
    if k == "White":
        return 1
    if k == "Hetero":
        return n
    if k == "Sum":
        return sum(n_params(p, n, d) for p in spec["parts"])
    if k == "CP":
        return sum(n_params(p, n, d) for p in spec["parts"]) + 2 * (len(spec["parts"]) - 1)
    raise KeyError(k)


def flatten(spec):
    """the library flattens nested sums (K1 + (K2 + K3) has three components)"""
    if spec["k"] == "Sum":
        parts = []
        for p in spec["parts"]:
            f = flatten(p)
            parts.extend(f["parts"] if f["k"] == "Sum" else [f])
        return {"k": "Sum", "parts": parts}
    if spec["k"] == "CP":
        return {"k": "CP", "parts": [flatten(p) for p in spec["parts"]], "axis": spec["axis"]}
    return spec


def build_kernel(spec):
    from inference.gp import SquaredExponential, RationalQuadratic, WhiteNoise, HeteroscedasticNoise, ChangePoint

    k = spec["k"]
    ub = spec.get("ub")          # bounds specified by the user for this component (documented forms)
    if k == "SE":
        return SquaredExponential(hyperpar_bounds=[tuple(b) for b in ub]) if ub else SquaredExponential()
    if k == "RQ":
        return RationalQuadratic(hyperpar_bounds=[tuple(b) for b in ub]) if ub else RationalQuadratic()
    if k == "White":
        # documented as "a length-2 tuple giving the lower/upper bound"
        return WhiteNoise(hyperpar_bounds=tuple(ub[0])) if ub else WhiteNoise()
    if k == "Hetero":
        return HeteroscedasticNoise()
    if k == "Sum":
        parts = [build_kernel(p) for p in spec["parts"]]
        out = parts[0]
        for p in parts[1:]:
            out = out + p
        return out
    if k == "CP":
        return ChangePoint(kernels=[build_kernel(p) for p in spec["parts"]], axis=spec["axis"])
    raise KeyError(k)


def _logistic(x, c, w):
    z = (x - c) / w
    if z >= 0:
        return 1.0 / (1.0 + math.exp(-z))
    e = math.exp(z)
    return e / (1.0 + e)


def _pair(spec, u, v, theta, n, d):
    """covariance between two points u, v (1-D sequences) - noise kernels contribute zero"""
    k = spec["k"]
    if k == "SE":
        a = math.exp(theta[0])
        s = sum(((u[i] - v[i]) / math.exp(theta[1 + i])) ** 2 for i in range(d))
        return a * a * math.exp(-0.5 * s)
    if k == "RQ":
        a = math.exp(theta[0])
        al = math.exp(theta[1])
        s = sum(((u[i] - v[i]) / math.exp(theta[2 + i])) ** 2 for i in range(d))
        # (written with log1p: the power form (1 + s/2al)**(-al) loses al*eps of its value - it is what the library used)
        return a * a * math.exp(-al * math.log1p(s / (2.0 * al)))
    if k in ("White", "Hetero"):
        return 0.0
    if k == "Sum":
        tot, off = 0.0, 0
        for p in spec["parts"]:
            m = n_params(p, n, d)
            tot += _pair(p, u, v, theta[off:off + m], n, d)
            off += m
        return tot
    if k == "CP":
        parts = spec["parts"]
        nk = len(parts)
        counts = [n_params(p, n, d) for p in parts]
        off_cp = sum(counts)
        ax = spec["axis"]
        fu = [_logistic(u[ax], theta[off_cp + 2 * i], theta[off_cp + 2 * i + 1]) for i in range(nk - 1)]
        fv = [_logistic(v[ax], theta[off_cp + 2 * i], theta[off_cp + 2 * i + 1]) for i in range(nk - 1)]
        tot, off = 0.0, 0
        for i, p in enumerate(parts):
            coeff = 1.0
            if i < nk - 1:
                coeff *= (1 - fu[i]) * (1 - fv[i])  # a_i
            if i > 0:
                coeff *= fu[i - 1] * fv[i - 1]  # b_{i-1}
            tot += coeff * _pair(p, u, v, theta[off:off + counts[i]], n, d)
            off += counts[i]
        return tot
    raise KeyError(k)


def ref_call(spec, U, V, theta, n_train):
    U = np.asarray(U, dtype=float)
    V = np.asarray(V, dtype=float)
    d = U.shape[1]
    th = [float(t) for t in theta]
    K = np.zeros((U.shape[0], V.shape[0]))
    for i in range(U.shape[0]):
        for j in range(V.shape[0]):
            K[i, j] = _pair(spec, list(U[i]), list(V[j]), th, n_train, d)
    return K


def ref_diag(spec, X, theta):
    """documented diagonal added by the data-covariance builder (vector over training points)"""
    X = np.asarray(X, dtype=float)
    n, d = X.shape
    k = spec["k"]
    if k == "SE":
        return np.full(n, JITTER * math.exp(2 * theta[0]))
    if k == "RQ":
        return np.full(n, JITTER * math.exp(2 * theta[0]))
    if k == "White":
        return np.full(n, math.exp(2 * theta[0]))
    if k == "Hetero":
        return np.array([math.exp(2 * t) for t in theta[:n]])
    if k == "Sum":
        tot, off = np.zeros(n), 0
        for p in spec["parts"]:
            m = n_params(p, n, d)
            tot = tot + ref_diag(p, X, theta[off:off + m])
            off += m
        return tot
    if k == "CP":
        parts = spec["parts"]
        nk = len(parts)
        counts = [n_params(p, n, d) for p in parts]
        off_cp = sum(counts)
        ax = spec["axis"]
        tot, off = np.zeros(n), 0
        for i, p in enumerate(parts):
            dg = ref_diag(p, X, theta[off:off + counts[i]])
            coeff = np.ones(n)
            for r in range(n):
                c = 1.0
                if i < nk - 1:
                    f = _logistic(X[r, ax], theta[off_cp + 2 * i], theta[off_cp + 2 * i + 1])
                    c *= (1 - f) ** 2
                if i > 0:
                    f = _logistic(X[r, ax], theta[off_cp + 2 * (i - 1)], theta[off_cp + 2 * (i - 1) + 1])
                    c *= f**2
                coeff[r] = c
            tot = tot + coeff * dg
            off += counts[i]
        return tot
    raise KeyError(k)


def ref_build(spec, X, theta):
    X = np.asarray(X, dtype=float)
    return ref_call(spec, X, X, theta, X.shape[0]) + np.diag(ref_diag(spec, X, theta))


def param_kinds(spec, n, d):
    """per hyper-parameter: 'log' (log of a scale), 'loc' (change-point location), 'width'"""
    k = spec["k"]
    if k in ("SE", "RQ", "White", "Hetero"):
        return ["log"] * n_params(spec, n, d)
    if k == "Sum":
        out = []
        for p in spec["parts"]:
            out.extend(param_kinds(p, n, d))
        return out
    out = []
    for p in spec["parts"]:
        out.extend(param_kinds(p, n, d))
    for _ in range(len(spec["parts"]) - 1):
        out.extend(["loc", "width"])
    return out


def param_roles(spec, n, d):
    """per hyper-parameter, by the documented layouts: 'amp' (log amplitude), 'alpha', 'scale' (log length-scale), 'noise' (log noise
    level), 'loc' / 'width' (change-point location / width, in the units of the coordinates)"""
    k = spec["k"]
    if k == "SE":
        return ["amp"] + ["scale"] * d
    if k == "RQ":
        return ["amp", "alpha"] + ["scale"] * d
    if k == "White":
        return ["noise"]
    if k == "Hetero":
        return ["noise"] * n
    out = []
    for p in spec["parts"]:
        out.extend(param_roles(p, n, d))
    if k == "CP":
        for _ in range(len(spec["parts"]) - 1):
            out.extend(["loc", "width"])
    return out


def move_theta(theta, roles, step=1.0, shift=0.0, ystep=1.0):
    """hyper-parameters drawn for coordinates x and data y, moved to coordinates (x + shift) * step and data y * ystep"""
    out = np.array(theta, dtype=float)
    for j, r in enumerate(roles):
        if r == "scale":
            out[j] += math.log(step)
        elif r in ("amp", "noise"):
            out[j] += math.log(ystep)
        elif r == "loc":
            out[j] = (out[j] + shift) * step
        elif r == "width":
            out[j] *= step
    return out


def describe(spec):
    k = spec["k"]
    if k in ("Sum", "CP"):
        inner = ",".join(describe(p) for p in spec["parts"])
        return f"{k}[{inner}]" + (f"@{spec['axis']}" if k == "CP" else "")
    return k


def depth(spec):
    return 1 + max((depth(p) for p in spec.get("parts", [])), default=0)


def has(spec, kind):
    return spec["k"] == kind or any(has(p, kind) for p in spec.get("parts", []))


def max_cp_kernels(spec):
    m = len(spec["parts"]) if spec["k"] == "CP" else 0
    return max([m] + [max_cp_kernels(p) for p in spec.get("parts", [])])


# ------------------------------------------------------------------ mean functions
def build_mean(kind):
    from inference.gp import ConstantMean, LinearMean, QuadraticMean

    return {"Constant": ConstantMean, "Linear": LinearMean, "Quadratic": QuadraticMean}[kind]()


def mean_n_params(kind, d):
    return {"Constant": 1, "Linear": 1 + d, "Quadratic": 1 + 2 * d}[kind]


def ref_mean(kind, X_train, Q, theta):
    """documented mean functions: constant; linear / quadratic about the centroid of the training points"""
    X_train = np.asarray(X_train, dtype=float)
    Q = np.asarray(Q, dtype=float)
    d = X_train.shape[1]
    c = [math.fsum(X_train[:, j]) / X_train.shape[0] for j in range(d)]
    out = []
    for q in Q:
        v = theta[0]
        if kind in ("Linear", "Quadratic"):
            v += math.fsum((q[j] - c[j]) * theta[1 + j] for j in range(d))
        if kind == "Quadratic":
            v += math.fsum((q[j] - c[j]) ** 2 * theta[1 + d + j] for j in range(d))
        out.append(v)
    return np.array(out)
