"""5-point central stencils with a Richardson self-estimate of their own error (DESIGN 2.6)."""
import numpy as np

EPS = np.finfo(float).eps


def stencil(f, x, i, h):
    """d f / d x_i by the 5-point central rule; f returns a scalar or array."""
    x = np.array(x, dtype=float)

    def at(k):
        xx = x.copy()
        xx[i] += k * h
        return np.asarray(f(xx), dtype=float)

    return (-at(2) + 8 * at(1) - 8 * at(-1) + at(-2)) / (12 * h)


def derivative(f, x, i, h):
    """returns (estimate at h/2, |estimate(h) - estimate(h/2)| as an error bound, roundoff floor)"""
    d1 = stencil(f, x, i, h)
    d2 = stencil(f, x, i, h / 2)
    f0 = np.asarray(f(np.array(x, dtype=float)), dtype=float)
    floor = 40 * EPS * (np.max(np.abs(f0)) if f0.size else 0.0) / h
    return d2, np.abs(d1 - d2), floor


def compare(analytic, f, x, i, h, rel=1e-6):
    """returns (max error, tolerance, converged?) comparing an analytic derivative with the stencil"""
    num, gap, floor = derivative(f, x, i, h)
    a = np.asarray(analytic, dtype=float)
    scale = max(float(np.max(np.abs(num))) if num.size else 0.0, float(np.max(np.abs(a))) if a.size else 0.0)
    tol = max(rel * scale, 20 * float(np.max(gap)) if gap.size else 0.0) + floor
    converged = (float(np.max(gap)) if gap.size else 0.0) <= 1e-3 * scale + floor
    err = float(np.max(np.abs(a - num))) if a.size else 0.0
    return err, tol, converged
