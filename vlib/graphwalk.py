"""Find numpy Generators inside an object graph (attributes, lists, tuples, dicts), depth-bounded."""
import numpy as np


def generators(obj, max_depth=4):
    out = {}
    seen = set()

    def walk(o, path, depth):
        if id(o) in seen or depth > max_depth:
            return
        seen.add(id(o))
        if isinstance(o, np.random.Generator):
            out[path] = o
            return
        if isinstance(o, (list, tuple)):
            if len(o) > 64:
                return
            for i, v in enumerate(o):
                walk(v, f"{path}[{i}]", depth + 1)
        elif isinstance(o, dict):
            for k, v in o.items():
                walk(v, f"{path}[{k!r}]", depth + 1)
        elif hasattr(o, "__dict__") and not isinstance(o, (type, np.ndarray)) and not callable(o):
            for k, v in vars(o).items():
                walk(v, f"{path}.{k}", depth + 1)

    walk(obj, "", 0)
    return out


def transplant(src, dst):
    """copy every generator state found in src to the generator at the same attribute path in dst"""
    a, b = generators(src), generators(dst)
    missing = sorted(set(a) - set(b))
    for path, g in a.items():
        if path in b:
            b[path].bit_generator.state = g.bit_generator.state
    return sorted(a), missing
