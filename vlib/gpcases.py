"""Hypothesis strategies for GP problems (shared by C02, C10, C11, C16, C18) producing JSON cases,
and builders turning a case into arrays / library objects."""
import math

import numpy as np
from hypothesis import strategies as st

from . import refkernels as rk

unit = st.floats(0.0, 1.0, allow_nan=False)


@st.composite
def kernel_specs(draw, d, max_depth=3, noise=True, hetero=True, only=None):
    leaves = only or (["SE", "RQ"] + (["White"] if noise else []) + (["Hetero"] if (noise and hetero) else []))
    smooth = [k for k in leaves if k in ("SE", "RQ")] or leaves

    def leaf(allow_noise=True):
        return {"k": draw(st.sampled_from(leaves if allow_noise else smooth))}

    def node(depth, top=False):
        kind = draw(st.sampled_from(["leaf", "leaf", "Sum", "CP"])) if depth > 1 else "leaf"
        if kind == "leaf":
            return leaf(allow_noise=not top)
        if kind == "Sum":
            m = draw(st.integers(2, 4))
            parts = [node(depth - 1) for _ in range(m)]
            if not any(rk.has(p, "SE") or rk.has(p, "RQ") for p in parts):
                parts[0] = leaf(allow_noise=False)
            return {"k": "Sum", "parts": parts}
        m = draw(st.integers(2, 4))
        parts = [node(depth - 1) for _ in range(m)]
        for i, p in enumerate(parts):  # every region needs some structure kernel
            if not (rk.has(p, "SE") or rk.has(p, "RQ")):
                parts[i] = leaf(allow_noise=False)
        return {"k": "CP", "parts": parts, "axis": draw(st.integers(0, d - 1))}

    return rk.flatten(node(draw(st.integers(1, max_depth)), top=True))


@st.composite
def point_sets(draw, n, d, allow_dups=False):
    style = draw(st.sampled_from(["free", "grid", "cluster"] + (["dups"] if allow_dups else [])))
    if style == "free":
        u = [[draw(unit) for _ in range(d)] for _ in range(n)]
    elif style == "grid":
        m = draw(st.integers(2, 12))
        u = [[draw(st.integers(0, m)) / m for _ in range(d)] for _ in range(n)]
    elif style == "cluster":
        c = [[draw(unit) for _ in range(d)] for _ in range(draw(st.integers(1, 3)))]
        w = 10 ** draw(st.floats(-3, -0.5))
        u = [[c[draw(st.integers(0, len(c) - 1))][j] + w * (draw(unit) - 0.5) for j in range(d)] for _ in range(n)]
    else:
        pool = [[draw(unit) for _ in range(d)] for _ in range(draw(st.integers(1, max(1, n // 2))))]
        u = [list(pool[draw(st.integers(0, len(pool) - 1))]) for _ in range(n)]
    return {"style": style, "u": u}


@st.composite
def gp_problems(draw, max_n=25, max_d=3, max_m=8, kernels=None, means=("Constant", "Linear", "Quadratic"),
                noises=("none", "y_err", "y_cov_full", "y_cov_diag"), max_depth=3, min_n=1, allow_hetero=True):
    d = draw(st.integers(1, max_d))
    n = draw(st.one_of(st.integers(min_n, max(min_n, min(6, max_n))), st.integers(min_n, max_n)))
    noise = draw(st.sampled_from(list(noises)))
    spec = draw(kernel_specs(d, max_depth=max_depth, hetero=allow_hetero, only=kernels))
    has_noise_kernel = rk.has(spec, "White") or rk.has(spec, "Hetero")
    pts = draw(point_sets(n, d, allow_dups=(noise != "none" or has_noise_kernel)))
    case = {
        "seed": draw(st.integers(0, 2**31)),
        "d": d, "n": n, "noise": noise, "kernel": spec, "mean": draw(st.sampled_from(list(means))),
        "x_style": pts["style"], "xu": pts["u"],
        "x_log_scale": [draw(st.floats(-3, 3)) for _ in range(d)],
        "x_off": [draw(st.sampled_from([0.0, 0.0, 1.0, -10.0, 1e3])) for _ in range(d)],
        "yv": [draw(st.floats(-1, 1)) for _ in range(n)],
        "y_log_scale": draw(st.floats(-3, 3)), "y_off": draw(st.sampled_from([0.0, 0.0, 1.0, -50.0, 1e4])),
        "theta_u": [draw(unit) for _ in range(rk.n_params(spec, n, d))],
        "mean_u": [draw(unit) for _ in range(rk.mean_n_params("Quadratic", d))],
        "noise_u": [draw(unit) for _ in range(n)],
        "noise_log_level": draw(st.floats(-6, 0)),
        "cov_b": [[draw(st.floats(-1, 1)) for _ in range(2)] for _ in range(n)] if noise == "y_cov_full" else [],
    }
    m = draw(st.integers(1, max_m))
    q = []
    for _ in range(m):
        kind = draw(st.sampled_from(["inside", "train", "outside"]))
        if kind == "train":
            q.append({"kind": "train", "i": draw(st.integers(0, n - 1))})
        elif kind == "inside":
            q.append({"kind": "inside", "u": [draw(unit) for _ in range(d)]})
        else:
            q.append({"kind": "outside", "u": [draw(st.floats(-3, 4)) for _ in range(d)]})
    case["queries"] = q
    case["q_form"] = draw(st.sampled_from(["array", "array", "list", "single1d"]))
    return case


# ------------------------------------------------------------------ builders
def arrays(case):
    d, n = case["d"], case["n"]
    xs = np.array([10.0 ** s for s in case["x_log_scale"]])
    xo = np.array(case["x_off"]) * xs
    X = xo[None, :] + xs[None, :] * np.array(case["xu"], dtype=float).reshape(n, d)
    ys = 10.0 ** case["y_log_scale"]
    y = case["y_off"] * ys + ys * np.array(case["yv"], dtype=float)
    return X, y, xs, ys


def queries(case, X, xs):
    xo = np.array(case["x_off"]) * xs
    Q = []
    for q in case["queries"]:
        if q["kind"] == "train":
            Q.append(X[q["i"] % X.shape[0]].copy())
        else:
            Q.append(xo + xs * np.array(q["u"], dtype=float))
    return np.array(Q).reshape(len(Q), case["d"])


def noise_matrix(case, ys):
    """returns (kwargs for GpRegressor, reference S matrix)"""
    n = case["n"]
    lvl = ys * 10.0 ** case["noise_log_level"]
    err = lvl * (0.3 + np.array(case["noise_u"], dtype=float))
    if case["noise"] == "none":
        return {}, np.zeros((n, n))
    if case["noise"] == "y_err":
        return {"y_err": err}, np.diag(err**2)
    if case["noise"] == "y_cov_diag":
        return {"y_cov": np.diag(err**2)}, np.diag(err**2)
    B = lvl * np.array(case["cov_b"], dtype=float).reshape(n, 2)
    S = B @ B.T
    S = np.triu(S) + np.triu(S, 1).T + np.diag(err**2)
    return {"y_cov": S}, S


def effective_span(X):
    """per-axis extent of the points; axes whose extent is degenerate (zero, or below 1e-9 of the coordinates'
    magnitude, or denormal-small) get a span of the coordinate magnitude instead so that length-scales stay
    representable"""
    span = np.ptp(X, axis=0)
    mag = np.abs(X).max(axis=0)
    ok = (span > 1e-9 * mag) & (span > 1e-150)
    return np.where(ok, span, np.maximum(mag, 1.0))


def theta_from_unit(spec, case, X, ys, theta_u=None):
    """map unit draws to hyper-parameter values relative to the data scales"""
    n, d = X.shape
    u = list(case["theta_u"] if theta_u is None else theta_u)
    span = effective_span(X)
    lo = X.min(axis=0)
    out = []

    def walk(s):
        k = s["k"]
        if k == "SE":
            out.append(math.log(ys) + 4 * (u.pop(0) - 0.5))
            for j in range(d):
                out.append(math.log(span[j]) + (-2.5 + 4.0 * u.pop(0)))
        elif k == "RQ":
            out.append(math.log(ys) + 4 * (u.pop(0) - 0.5))
            # log-alpha over the default search range, and (one draw in seven) far beyond it towards the squared-exponential limit
            ua = u.pop(0)
            out.append(-2 + 7 * ua if ua <= 6 / 7 else 4 + (ua - 6 / 7) * 7 * 26)
            for j in range(d):
                out.append(math.log(span[j]) + (-2.5 + 4.0 * u.pop(0)))
        elif k == "White":
            out.append(math.log(ys) + (-7 + 7.5 * u.pop(0)))
        elif k == "Hetero":
            for _ in range(n):
                out.append(math.log(ys) + (-7 + 7.5 * u.pop(0)))
        elif k == "Sum":
            for p in s["parts"]:
                walk(p)
        elif k == "CP":
            for p in s["parts"]:
                walk(p)
            ax = s["axis"]
            for _ in range(len(s["parts"]) - 1):
                out.append(lo[ax] + span[ax] * (-0.2 + 1.4 * u.pop(0)))
                out.append(span[ax] * 10 ** (-2 + 2 * u.pop(0)))

    walk(spec)
    assert not u
    return np.array(out)


def mean_theta(case, X, y, ys):
    d = X.shape[1]
    kind = case["mean"]
    u = case["mean_u"]
    span = effective_span(X)
    th = [float(np.mean(y)) + ys * 2 * (u[0] - 0.5)]
    if kind in ("Linear", "Quadratic"):
        th += [ys / span[j] * 4 * (u[1 + j] - 0.5) for j in range(d)]
    if kind == "Quadratic":
        th += [ys / span[j] ** 2 * 4 * (u[1 + d + j] - 0.5) for j in range(d)]
    return np.array(th)


def mean_roundoff(kind, th_mean, X, Q=None):
    """absolute rounding error of evaluating the documented mean function in float64: the centred coordinates
    (x - centroid) carry eps*|x| each, multiplied by the slope / curvature coefficients"""
    d = X.shape[1]
    mag = np.abs(X).max(axis=0)
    if Q is not None and len(Q):
        mag = np.maximum(mag, np.abs(np.asarray(Q)).max(axis=0))
    full = np.concatenate([np.asarray(th_mean, dtype=float), np.zeros(1 + 2 * d - len(th_mean))])
    eps = np.finfo(float).eps
    out = 64 * eps * float(np.sum(np.abs(full[1:1 + d]) * mag))
    if kind == "Quadratic":
        out += 128 * eps * float(np.sum(np.abs(full[1 + d:]) * mag**2))
    return out + 8 * eps * abs(full[0])
