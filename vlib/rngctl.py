"""Ownership of every random stream used by the library under test.

Must be imported BEFORE `inference`.  `numpy.random.default_rng` is replaced by a
wrapper: an unseeded call returns a generator seeded from (case_seed, k) with k a
per-case counter, and the generator created at import time is remembered so module-level generators
(kept alive here) can be re-seeded at the start of every case.  `reset(case_seed)` is called by the
runner at the start of every example, so every run of a case body is a pure function
of the case.
"""
import os
import sys
import random as _stdlib_random

import numpy as _np
import numpy.random as _npr

_REPO = os.environ.get("VERIF_REPO", "/repo")
if sys.path[0] != _REPO:
    sys.path.insert(0, _REPO)

_orig_default_rng = _npr.default_rng
_state = {"seed": 0, "k": 0}
_module_level = []  # weak refs to generators created at import time (module globals)
_importing = [True]


def _wrapped_default_rng(seed=None):
    if seed is not None:
        return _orig_default_rng(seed)
    k = _state["k"]
    _state["k"] += 1
    g = _npr.Generator(_npr.PCG64(_npr.SeedSequence([_state["seed"], k])))
    if _importing[0]:
        _module_level.append(g)
    return g


_npr.default_rng = _wrapped_default_rng
_np.random.default_rng = _wrapped_default_rng

# import every sub-package now so module-level generators exist before the first reset
import inference  # noqa: E402
import inference.priors  # noqa: E402,F401
import inference.posterior  # noqa: E402,F401
import inference.likelihoods  # noqa: E402,F401
import inference.plotting  # noqa: E402,F401
import inference.pdf  # noqa: E402,F401
import inference.gp  # noqa: E402,F401
import inference.mcmc  # noqa: E402,F401
import inference.approx  # noqa: E402,F401
import inference.approx.conditional  # noqa: E402,F401

_importing[0] = False
N_MODULE_LEVEL = len(_module_level)


def reset(case_seed: int):
    """Start of a case: all library randomness becomes a function of case_seed."""
    case_seed = int(case_seed) % (2**63)
    _state["seed"] = case_seed
    _state["k"] = 0
    for j, g in enumerate(_module_level):
        if g is not None:
            fresh = _npr.PCG64(_npr.SeedSequence([case_seed, 1_000_000 + j]))
            g.bit_generator.state = fresh.state
    _npr.seed(case_seed % (2**32))
    _stdlib_random.seed(case_seed)


def rng(case_seed: int, stream: int = 0):
    """A harness-side generator (never shared with the library) for a case."""
    return _npr.Generator(_npr.PCG64(_npr.SeedSequence([int(case_seed) % (2**63), 7_000_000 + stream])))


def tree_identity():
    import subprocess

    root = os.path.dirname(os.path.dirname(os.path.abspath(inference.__file__)))
    out = {"inference_file": inference.__file__, "root": root}
    try:
        out["head"] = subprocess.run(
            ["git", "-C", root, "rev-parse", "HEAD"], capture_output=True, text=True, timeout=20
        ).stdout.strip()
        out["dirty"] = bool(
            subprocess.run(
                ["git", "-C", root, "status", "--porcelain", "--", "inference"],
                capture_output=True, text=True, timeout=20,
            ).stdout.strip()
        )
    except Exception as e:  # pragma: no cover
        out["git_error"] = repr(e)
    return out
