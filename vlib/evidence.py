"""Merge shard results into /verif/evidence/<id>.json and validate against the schema."""
import json
import os
from collections import Counter

from . import core

SCHEMA = "/root/.vp/EVIDENCE.schema.json"


def write(prop, mod, subs, names, results, args, wall, violation_paths, known_hits, harness_errors):
    from . import rngctl

    per_sub = {}
    nontrivial_all = set()
    evaluations = 0
    samples = []
    for n in names:
        rs = [r for r in results if r["sub"] == n]
        ev = Counter()
        inc = Counter()
        worst = {}
        extra = {}
        nt = set()
        stat = []
        for r in rs:
            ev.update(r["events"])
            inc.update(r["inconclusive"])
            for k, v in r["worst"].items():
                worst[k] = max(worst.get(k, 0.0), v)
            for k, v in r["extra"].items():
                extra[k] = extra.get(k, 0) + v
            nt.update(r["nontrivial_hashes"])
            stat.extend(r["stat_tests"])
        ex = sum(r["examples"] for r in rs)
        evaluations += ex
        nontrivial_all.update(f"{n}/{h}" for h in nt)
        per_sub[n] = {
            "examples": ex,
            "shards": len(rs),
            "distinct_nontrivial": len(nt),
            "rule": subs[n].rule,
            "classes": dict(sorted(ev.items(), key=lambda kv: -kv[1])[:60]),
            "inconclusive": dict(inc),
            "worst_error_over_tolerance": worst,
            "accumulators": extra,
            "wall_s_sum": round(sum(r["wall_s"] for r in rs), 2),
        }
        if stat:
            per_sub[n]["stat_tests"] = stat[:60]
            per_sub[n]["stat_tests_total"] = len(stat)
        for r in rs[:1]:
            for c in (r["nontrivial_samples"][:2] or r["samples"][:1]):
                samples.append({"subcheck": n, "case": c})
    rep = [r for r in results if r["sub"] == "__replays__"]
    replayed = sum(r["examples"] for r in rep)
    if not samples:
        samples = [{"note": "no cases executed"}]
    doc = {
        "property_id": prop,
        "tier": args.tier,
        "seed": int(args.seed),
        "level": "exploration",
        "coverage": {
            "evaluations": int(evaluations),
            "distinct_nontrivial": int(len(nontrivial_all)),
            "rule": getattr(mod, "RULE", "see per-sub-check rules"),
            "samples": samples,
            "subchecks": per_sub,
            "saved_inputs_replayed": int(replayed),
            "known_findings_hit": {k: {"count": v["count"], "detail": v.get("detail", "")[:300]}
                                   for k, v in known_hits.items()},
            "violation_replays": violation_paths,
            "harness_errors": [h[-500:] for h in harness_errors],
            "tree": rngctl.tree_identity(),
        },
        "assumptions": getattr(mod, "ASSUMPTIONS", []),
        "wall_s": round(wall, 2),
        "violations": len(violation_paths),
    }
    txt = json.dumps(doc, indent=1, default=core._json_default)
    doc = json.loads(txt)
    try:
        import jsonschema

        with open(SCHEMA) as f:
            schema = json.load(f)
        jsonschema.validate(doc, schema)
    except ImportError:
        pass
    except FileNotFoundError:
        pass
    path = os.path.join(core.out_root(), "evidence", f"{prop}.json")
    os.makedirs(os.path.dirname(path), exist_ok=True)
    with open(path, "w") as f:
        f.write(txt)
    return path
