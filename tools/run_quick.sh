#!/bin/bash
# usage: tools/run_quick.sh [seed] [ids...]   - run the quick tier of every (or the given) property against /repo; one line per property
seed="${1:-1}"; shift
ids="${@:-C01 C02 C03 C04 C05 C06 C07 C08 C09 C10 C11 C12 C13 C14 C15 C16 C17 C18 C19 C20}"
cd "$(dirname "$0")/.."
[ -d .deps ] || /venv/bin/pip install --no-index --find-links /opt/veriftools/wheels --target .deps mpmath jsonschema >/dev/null 2>&1
for id in $ids; do
  t0=$(date +%s)
  VERIF_SEED=$seed /venv/bin/python check.py $id --tier quick > quick-$id-s$seed.out 2>&1; rc=$?
  echo "$id seed=$seed rc=$rc secs=$(( $(date +%s) - t0 )) :: $(grep -c '^VIOLATION' quick-$id-s$seed.out) violations :: $(tail -1 quick-$id-s$seed.out | cut -c1-160)"
done
