#!/bin/bash
# usage: tools/seed_eval.sh <ID> [check args]   - confirm a sub-agent's seeded change and run the property's check against it
# needs /tmp/seed/<ID>-out/{patch.diff,demo.py}
set -u
id="$1"; shift
out="${SEED_DIR:-/tmp/seed}/$id-out"
wt="/tmp/scratch/seedwt-$id-$$"
mkdir -p /tmp/scratch
git -C /repo worktree add --detach "$wt" HEAD >/dev/null 2>&1 || { echo "worktree failed"; exit 3; }
tag="${SEED_TAG:-seed}"
cleanup() {
  # keep the shrunk failing inputs as plain regression inputs of the replay tier
  alt="/verif/.work/alt-$(basename $wt)/replays/$id"
  if [ -d "$alt" ]; then mkdir -p "/verif/regress/$id"; for f in "$alt"/*.json; do [ -e "$f" ] && cp "$f" "/verif/regress/$id/$tag-$(basename "$f")"; done; fi
  git -C /repo worktree remove --force "$wt" >/dev/null 2>&1; rm -rf "/verif/.work/alt-$(basename $wt)"; }
trap cleanup EXIT
if [ -n "${SKIP_CONFIRM:-}" ]; then
  git -C "$wt" apply "$out/patch.diff" || { echo "patch does not apply"; exit 3; }
  VERIF_REPO="$wt" /venv/bin/python /verif/check.py "$id" "$@" 2>&1 | grep -E "^VIOLATION|key=|violations=|HARNESS" | cut -c1-250 | head -12 | tee /tmp/scratch/check-$id.log
  exit 0
fi
echo "== demo on original tree"
PYTHONPATH="$wt" timeout 600 /venv/bin/python "$out/demo.py" >/tmp/scratch/demo-orig-$id.log 2>&1; rc0=$?
echo "   exit $rc0"
git -C "$wt" apply "$out/patch.diff" || { echo "patch does not apply"; exit 3; }
echo "== demo on changed tree"
PYTHONPATH="$wt" timeout 600 /venv/bin/python "$out/demo.py" >/tmp/scratch/demo-mut-$id.log 2>&1; rc1=$?
echo "   exit $rc1"; tail -3 /tmp/scratch/demo-mut-$id.log
echo "== test suite on changed tree"
(cd "$wt" && PYTHONPATH="$wt" timeout 1500 /venv/bin/python -m pytest -q -p no:cacheprovider -x tests 2>&1 | tail -1) | tee /tmp/scratch/tests-$id.log
echo "== check $id on changed tree"
VERIF_REPO="$wt" /venv/bin/python /verif/check.py "$id" "$@" 2>&1 | grep -E "^VIOLATION|key=|violations=|HARNESS|KNOWN" | cut -c1-250 | head -12 | tee /tmp/scratch/check-$id.log
rc2=${PIPESTATUS[0]}
echo "SUMMARY id=$id demo_orig=$rc0 demo_mut=$rc1 check_rc=$(grep -c '^VIOLATION' /tmp/scratch/check-$id.log)"
