#!/venv/bin/python
"""regenerate /verif/seeded/INDEX.md from the meta.json files"""
import glob, json, os

rows = []
for m in sorted(glob.glob("/verif/seeded/*/meta.json")):
    d = json.load(open(m))
    name = os.path.basename(os.path.dirname(m))
    notes = d.get("what_it_needs_to_manifest", "").replace("\n", " ")
    summary = d.get("summary") or notes[:260]
    rows.append((name, d["property"], summary, "caught" if d["caught_by_quick_check"] else d.get("status", "MISSED"),
                 ", ".join(d.get("violation_keys", [])[:3])))
with open("/verif/seeded/INDEX.md", "w") as f:
    f.write("# Seeded changes written by independent sub-agents\n\n"
            "Each directory holds patch.diff (apply with `git -C /repo apply`), demo.py (exits 0 on the original tree, 1 on the changed tree) and meta.json.\n"
            "Every change compiles and passes the 150 existing tests.\n\n"
            "| seed | property | change / what it needs to manifest | quick check | keys reported |\n|---|---|---|---|---|\n")
    for r in rows:
        f.write("| " + " | ".join(x.replace("|", "/") for x in r) + " |\n")
print(len(rows), "seeds indexed")
