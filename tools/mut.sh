#!/bin/bash
# usage: tools/mut.sh <name> <file-in-repo> <python-regex-old> <new> <ID> [check args]   (single-substitution mutant, scratch worktree)
set -u
name="$1"; file="$2"; old="$3"; new="$4"; shift 4
dir="/tmp/scratch/mut-$$-$name"
mkdir -p /tmp/scratch
git -C /repo worktree add --detach "$dir" HEAD >/dev/null 2>&1 || { echo "worktree failed"; exit 3; }
OLD="$old" NEW="$new" /venv/bin/python - "$dir/$file" <<'PY'
import os,sys
p=sys.argv[1]; s=open(p).read(); old=os.environ['OLD']; new=os.environ['NEW']
if s.count(old)<1: print("MUTANT: pattern not found"); sys.exit(4)
s=s.replace(old,new,1); open(p,'w').write(s)
PY
[ $? -ne 0 ] && { git -C /repo worktree remove --force "$dir"; exit 4; }
git -C "$dir" diff > "/verif/mutants/$name.diff"
VERIF_REPO="$dir" /venv/bin/python /verif/check.py "$@" | grep -E "VIOLATION|key=|violations=|HARNESS" | head -8
rc=${PIPESTATUS[0]}
git -C /repo worktree remove --force "$dir"
rm -rf "/verif/.work/alt-$(basename $dir)"
echo "mutant $name rc=$rc"
