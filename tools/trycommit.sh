#!/bin/bash
# usage: trycommit.sh <commit-ish> <ID> [check args] - run the LIVE check against a scratch worktree of /repo at the given commit
# (e.g. the parent of a fix: the check must flag it)
c=$1; id=$2; shift 2
wt=/tmp/scratch/tc-$id-$$
mkdir -p /tmp/scratch
git -C /repo worktree add --detach $wt $c >/dev/null 2>&1 || { echo "no such commit"; exit 3; }
VERIF_REPO=$wt /venv/bin/python /verif/check.py $id "$@" 2>&1 | grep -E "^VIOLATION|key=|violations=|HARNESS|KNOWN" | cut -c1-260 | head -${LINES_MAX:-12}
git -C /repo worktree remove --force $wt; rm -rf /verif/.work/alt-$(basename $wt)
