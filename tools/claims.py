# claim(id, level text, level note, technique) -- executed by gen_manifest.py
claim(
    "C13",
    "Generated-input search: every generated sample (1-D/2-D, four dtypes, lists/tuples/views, ties, outliers, "
    "fractions at and within ulps of k/n) is decided by an O(n^2) brute-force oracle over all pairs of sample values "
    "(end points are sample values, coverage >= f*n in exact rational arithmetic, no pair holding as many points is "
    "shorter) plus exact metamorphic relations (column-wise = 1-D, permutation, exact and generic positive affine maps, "
    "input untouched, documented ValueErrors). Exploration, not proof: absence is only shown for the cases generated.",
    "Trusts numpy sort/searchsorted for the oracle; integer inputs limited to |v| < 2**40 so float64 holds them; NaN-free samples.",
    "Hypothesis PBT with brute-force oracle and metamorphic relations",
)
claim(
    "C05",
    "Generated-input search against a 40-digit mpmath reference: for every generated (class, data, per-datum scales over 16 "
    "decades, residuals to 1e4 sigma, forward model, theta) the value must equal the sum of textbook log-densities to 1e-12 "
    "relative (scipy.stats cross-checks the oracle), the gradient must equal the 40-digit numerical derivative of the reference "
    "density chained through the true Jacobian, cost/cost_gradient are exact negatives, single-datum likelihoods integrate to 1 "
    "by adaptive quadrature, and a missing Jacobian raises the documented ValueError.",
    "Trusts mpmath arithmetic and scipy.integrate.quad; forward models limited to five analytic families.",
    "Hypothesis PBT with high-precision reference oracle",
)
claim(
    "C06",
    "Generated-input search: per-class values/gradients/bounds against mpmath references inside, on the edge of and outside "
    "the support; quad normalisation; joint priors over random ordered partitions (interleaved, descending, repeated classes) "
    "checked entry by entry against the owner of each index; i.i.d. draws (seeded via the harness) KS-tested per coordinate "
    "against the owner's exact CDF and checked to stay in the support; invalid index layouts must raise; Posterior sums and "
    "negations exact; generate_initial_guesses checked with a recording prior (exactly m draws, k lowest costs in order).",
    "KS alarms at p < 2e-13 per test; 'effectively -inf' taken as <= -1e30; sampling experiment uses 1500 (quick) / 20000 draws per layout.",
    "Hypothesis PBT with reference model + exact-null KS tests",
)
claim(
    "C10",
    "Generated-input search over a kernel grammar (SE, RQ, white, heteroscedastic, sums of 2-4, change-points with 2-4 kernels, "
    "nesting to depth 3, any axis) on free/gridded/clustered/duplicated point sets in 1-3 dimensions: values against reference "
    "kernels written per pair from the documented formulas (1e-12 of max|K|), exact symmetry and K(u,v)=K(v,u)^T, eigenvalues "
    ">= -100 n eps max|K|, builder = pairwise + documented diagonal, every hyper-parameter gradient against a 5-point stencil of "
    "build_covariance with Richardson error control, composites against independently built components (labels, bounds, counts, "
    "gradient order), mean functions against the documented formulas and stencils.",
    "Reference kernels share the documented formulas (not the code); stencil cases that do not converge are counted inconclusive; "
    "length-scales are kept representable (degenerate axes get the coordinate magnitude as span).",
    "Hypothesis PBT with reference implementation + numerical differentiation",
)
claim(
    "C02",
    "Generated-input search: every generated GP problem (n<=25, d<=3, kernel grammar incl. sums/change-points/noise kernels, three "
    "means, four noise specifications, queries inside / at training points / far outside, three query forms) is compared with the "
    "closed-form posterior computed from reference kernels by 40-digit LU (n<=10) or a dense solve, with a tolerance scaled by the "
    "measured condition number; the three call forms must agree, 0 <= var <= prior var, training-order invariance (with per-point "
    "noise parameters permuted alike) and y_err == diag y_cov (bit-identical).",
    "Problems with condition number > 1e10 are exercised for crashes only; single-point data sets (n=1) are rejected by the constructor "
    "with its documented 1-D ValueError and are outside the generated domain.",
    "Hypothesis PBT with closed-form reference (mpmath) and metamorphic relations",
)
claim(
    "C11",
    "Generated-input search: marginal likelihood against an independent multivariate-normal log-density (mpmath LU / eigendecomposition, "
    "scipy mvn as oracle cross-check); leave-one-out predictions and score differences against brute-force deletion of each point; "
    "value-and-gradient variants against the plain value and 5-point stencils with Richardson control; automatic selection (both optimisers, "
    "both criteria, n_starts in {default,1,2}) must stay inside hp_bounds and (bfgs) score at least the centre of the box.",
    "kappa > 1e8 (scores) / 1e5 (stencils) inconclusive; optimiser runs limited to SE/RQ(+white) kernels on <= 10 points.",
    "Hypothesis PBT with brute-force refit oracle + numerical differentiation",
)
claim(
    "C16",
    "Generated-input search on SquaredExponential regressors (n<=20, d<=3, three means, three noise modes, single/batched queries "
    "inside, at and outside the data): gradient() and spatial_derivatives() against Richardson-controlled 5-point stencils of the "
    "regressor's own predictive mean and variance; gradient covariance symmetric, PSD and equal to prior-minus-explained with the "
    "Jacobian of the reference kernel row; documented output shapes; kernels without derivative terms must raise NotImplementedError.",
    "kappa > 1e6 inconclusive; non-converged stencils counted inconclusive, never violations.",
    "Hypothesis PBT with numerical differentiation oracle",
)
claim(
    "C17",
    "Generated-input search over model matrices (tall / wide / square, dense, banded blur, sparse, repeated or zero rows and columns), "
    "data and errors over six decades, parameter positions in 1-2 dimensions (duplicates allowed), SE/RQ/white/sum/change-point "
    "priors, three mean functions: posterior mean and covariance against the data-space closed form (40-digit mpmath for sizes <= 10), "
    "mean-only path against the same closed form, covariance symmetric / PSD / no larger than the prior, evidence against an independent "
    "multivariate-normal log-density (scipy cross-check), evidence gradient against Richardson-controlled stencils.",
    "Tolerance scaled by max(cond(I+KW), cond(AKA^T+S)); the full-path mean is allowed the covariance's rounding error times the data "
    "vector A^T S^-1 (y - A m) (that product is how the result is documented to be formed); kappa > 1e9 inconclusive.",
    "Hypothesis PBT with closed-form reference (mpmath) + numerical differentiation",
)
claim(
    "C18",
    "Generated-input search in three layers: (a) acquisition values with a stub regressor so that mean, sd and incumbent are free "
    "(z from -1e6 to 1e6, sd over 18 decades): log-EI and EI against 50-digit mpmath E[max(f-y_max,0)] on both branches, continuity "
    "at z=-3, UCB, max-variance, opt_func=-objective; (b) opt_func_gradient on real regressors (d=1..3, z on both sides of -3) "
    "against opt_func and Richardson-controlled stencils with a cancellation-aware round-off floor; (c) model-based histories of "
    "GpOptimiser (propose bfgs/diffev, add with x as scalar/1-D/(1,d)/list): proposals inside the box, data = initial + added in "
    "order, incumbent = max(y), every caller-owned array unchanged in values/shape/dtype.",
    "|z| <= 1e6; stencil cases whose round-off floor exceeds 1e-3 of the gradient are inconclusive; histories use a fixed smooth objective.",
    "Hypothesis PBT: high-precision reference, numerical differentiation, model-based histories",
)
claim(
    "C12",
    "Generated-input search: five sample families (incl. heavy tails, bimodal, ties), sizes 3..3000, locations to 1e6 scale units, "
    "scales 1e-6..1e6, rule-of-thumb / user (0.02-20x rule and wider than the data range) / cross-validated bandwidths; evaluation at "
    "dyadic region boundaries +-1 ulp, sample values, inside and up to 1e4 h outside. Oracle: exact KDE and exact CDF by direct summation "
    "with the estimator's own h, explicit truncation bounds (2.5e-3/(sqrt(2pi)h) and 3e-4) derived from the 4h cut-off, CDF monotone and "
    "0/1 limits, bit-exact invariance to sample order, evaluation order and scalar/array form, exact covariance under power-of-two "
    "scaling and tolerance-bounded covariance (bandwidth, pdf, cdf) under generic positive affine maps for every bandwidth mode.",
    "Samples are produced by a numpy generator seeded from the case; cross-validated cases limited to n <= 400 (no random sub-sampling); "
    "a cross-validation grid flip to the neighbouring refinement point (<2% in h) is counted inconclusive.",
    "Hypothesis PBT with direct-summation reference and metamorphic relations",
)
claim(
    "C19",
    "Generated-input search over six sample families, sizes 300..20000, locations up to 1e6 standard deviations from zero, scales 1e-6..1e6, "
    "fractions 0.05..0.95 and both estimators; every oracle is computed from the estimator's own density by independent means (composite "
    "12-point Gauss-Legendre on panels no wider than h/2, closed-form Gaussian-mixture moments for the KDE, dense-grid maximisation): "
    "normalisation, cdf = integral of pdf, interval mass and equal end densities, mode maximality, moments (only when the tails outside the "
    "estimator's own range are shown to be negligible), and direct comparison of fits to z and a*z+b. The same absolute tolerances (in "
    "standard-deviation units) apply at every location and scale, which is the covariance claim.",
    "Tolerances fixed from delivered accuracy at scale 1 / location 0 with 10-20x margin (mass 5e-4, end-density ratio 5e-3, normalisation 2e-3, "
    "mode density 1e-3, mean 2e-3 sd, variance 4e-3, shape 5e-3 / 2e-2); one open known finding (KDE mode search confined to the 20% sample HDI).",
    "Hypothesis PBT with self-consistency oracles (independent quadrature) and metamorphic shift/scale relations",
)
claim(
    "C20",
    "Generated-input search: (a) piecewise_linear_sample on uniform / geometric / wildly non-uniform grids with flat, linear, spiky and "
    "zero-containing tables: i.i.d. draws (seeded through the harness) KS-tested against the exact piecewise-quadratic CDF of the "
    "interpolant, draws inside the grid and never inside dead cells, invalid tables raise; (b) the inverse transform against the closed-form "
    "CDF of a linear density on both branches and across the |dh|=1e-5 switch; (c) get_conditionals on correlated Gaussians, products of "
    "gamma/log-normal/beta/logistic and a rotated banana: grid ascending and inside the bounds, Simpson-normalised, matching the true "
    "conditional (same posterior evaluated along the line, normalised by adaptive quadrature) and covering the region above e^-7.9 of "
    "the peak; (d) conditional_sample inside the bounds and KS-consistent with the tabulated conditionals.",
    "KS alarms at p < 5e-13; tabulated conditional within 3e-3 of the peak; log-normal sigma <= 0.5; x within 1e-12 of 1 excluded from the transform check.",
    "Hypothesis PBT with exact-CDF KS tests and line-evaluation oracle",
)
claim(
    "C15",
    "Model-based generation of histories: sequences of advance(m) / take_step over every sampler class (m in {0, 1..99, 100, 101..350}, "
    "ensemble iterations incl. 0 as the first call, with bounds / limits / temperatures / mass settings) against an integer model of the "
    "length, comparing chain_length and the sizes of all read-outs after every operation; ChainPool against serially advanced deep copies "
    "(bit for bit, pools of 1-4 mixed chains, quiet and verbose); timed runs under a virtual clock owned by the harness (step cost 1e-6..1e3 s, "
    "budgets up to 10 h, minutes/hours/days arguments): returns, deadline reached, >=1 step, no livelock (1000 clock reads without a step), "
    "bounded overshoot, consistent lengths.",
    "Liveness is decided as bounded facts under the virtual clock; PcaChain needs >= 2 parameters; one open known finding "
    "(EnsembleSampler.run_for has no take_step).",
    "Hypothesis model-based histories + virtual clock + differential (pool vs serial)",
)
claim(
    "C03",
    "Model-based generation of histories (take_step, advance, tempering-style exchange through replace_last + re-tempered probability, "
    "second sampler built from the same input arrays, stepping either sampler) over all five sampler classes with temperatures 0.3..50, "
    "bounds and Gibbs limits: after every operation every stored log-probability is recomputed by the harness from the stored sample "
    "(own evaluation / T, 1e-12 relative), lengths agree, mode() is a stored row with maximal stored probability, caller-owned arrays "
    "equal pristine copies, and stepping one sampler leaves its sibling's read-outs bit-identical. A per-case watchdog reports a library "
    "loop that does not return.",
    "Exchanges through real worker processes are C08's job; installed points are kept off the discontinuities of the 'cliff' target.",
    "Hypothesis model-based histories with reference re-evaluation",
)
claim(
    "C14",
    "Model-based: the chain is driven by generated histories while a recording posterior logs every evaluation; the full chain is validated as "
    "an append-only log (grows by exactly the requested rows, earlier rows untouched, every new row was evaluated during the operation or repeats "
    "the previous state, stored log-probability = own evaluation / T). Then generated read-outs (burn 0..len+3 incl. the 0- and 1-row edges, thin "
    "1..len+3, any parameter, interval fractions, requested counts) must equal slices burn::thin of the model exactly, stay aligned, feed "
    "get_marginal with exactly those values, and get_interval must return 2-D/1-D arrays of (row, log-probability) pairs of the burned and "
    "thinned chain from the documented top fraction: all of it without a count, at most the count otherwise.",
    "get_interval's documented thin override for requested counts is part of the model; ties at the cut are compared as multisets of probabilities.",
    "Hypothesis model-based histories with append-only log model",
)
claim(
    "C09",
    "Model-based generation of histories over all five sampler classes and configuration axes (bounds, Gibbs limits, T != 1, HMC default / "
    "scalar / vector / matrix mass, with and without gradient): saves land before any step, before and after the first adaptation event "
    "and after many; the reloaded object must report identical lengths, samples, log-probabilities, parameters for several (burn, thin), mode "
    "and bounds, offer the same read-out / plotting calls (1 in 10 cases, Agg), and - after every numpy Generator reachable from the original "
    "has been transplanted to the same attribute path of the copy - continue bit-identically, which observes all tuning state behaviourally.",
    "Generator paths are found by walking the object graph (depth 4); files live in a per-case temporary directory under $TMPDIR.",
    "Hypothesis model-based histories with round-trip + differential continuation oracle",
)
claim(
    "C04",
    "Generated-input search: (a) Bounds.reflect / reflect_momenta and the Gibbs boundary / non-negative proposals (driven through a stub "
    "generator) against an exact rational triangle wave on the same floats - inside the closed limits, identity on the allowed region, "
    "fold accuracy 8 eps, momentum factor (-1)^folds - for |lower| to 1e9, widths 1e-9..1e9 and overshoots to 1e6 widths; (b) model-based "
    "histories: a dict model of limits in force under any order of set_boundaries / remove / set_non_negative calls (Gibbs, Metropolis) and "
    "boxes given at construction (PCA, HMC with and without gradient, ensemble; starts on the walls; boxes far from the origin; proposal "
    "scales up to 1e4 x the box), with a recording posterior and gradient: every evaluated point and every stored sample must lie inside the "
    "closed limits in force; starts outside the box must raise ValueError.",
    "Closed limits up to 4 eps max|limit|; limit-changing calls are generated only when the current value lies inside the new limits.",
    "Hypothesis PBT (exact rational oracle) + model-based histories with recording callables",
)
claim(
    "C07",
    "Generated-input search on the public trajectory pieces (run_leapfrog, hamiltonian, kinetic_energy, mass.sample_momentum, finite_diff) over "
    "five smooth targets, d=1..4, default / scalar / vector / full-matrix mass, T 0.3..50, eps*omega 0.01..0.7, 1..60 steps, with and without "
    "reflecting boxes: forward-flip-forward round trip (tolerance scaled by the measured sensitivity), central-difference Jacobian determinant "
    "= 1 at two stencil sizes, observed order of the energy-error envelope between the finest step halvings >= 1.7, exact chi-square KS test of "
    "2K over sampled momenta, H - K = -log-density / T, an independent textbook leapfrog with specular walls, finite-difference gradient vs "
    "analytic gradient incl. exactly-zero and 1e-12-scale coordinates.",
    "Trajectories start strictly inside the box (a point exactly on the upper wall counts as folded once - measure zero, noted in DESIGN.md); "
    "four open known findings (wall reflection: full-matrix mass not reversible; energy error first order per bounce for every mass kind).",
    "Hypothesis PBT with metamorphic (reversal), numerical-Jacobian, convergence-order and reference-integrator oracles",
)
claim(
    "C08",
    "Model-based generation against real ParallelTempering objects with real worker processes (1..8 chains mixing Gibbs, Metropolis, PCA and "
    "HMC; sorted / unsorted / tied ladders): snapshots through return_chains() around every swap() and the counter deltas give, per round, the "
    "proposed pairs (disjoint, floor(N/2)), the accepted ones, the hand-over of positions, the re-tempered stored probability (own evaluation / "
    "T of the receiving chain), untouched bystanders and histories; the exchange law is tested with the harness's own acceptance probability "
    "(certain exchanges made, impossible ones refused, exact Poisson-binomial tail for the rest); advance accounting (every chain +n, n // "
    "swap_interval rounds, chain order); workers dead after shutdown; and the metamorphic schedule relation: the same seeds under 2-3 injected "
    "per-call delay tables (one chain 10x slower, reverse completion order, random) must return bit-identical chains and counters.",
    "Interleavings are sampled through injected delays, not enumerated (the harness does not own the OS scheduler); termination is a bounded-time "
    "fact under a 60 s per-case watchdog that reports the innermost library frame.",
    "Hypothesis model-based histories on real processes + exact Poisson-binomial test + metamorphic delay injection",
)
claim(
    "C01",
    "Generated-input search in two layers. Decisions: proposal laws from thousands of fresh samplers per configuration (first-evaluation trick; "
    "plain, folded-at-zero and wall-reflected normal proposals by exact-null KS; ensemble proposals on the line through a partner walker with "
    "stretch in [1/alpha, alpha] and law z^-1/2), and every accept/reject decision of short histories rebuilt from the trace of a recording posterior "
    "with the MH probability the harness computes itself (uphill never rejected, e^-45 moves never accepted, exact Poisson-binomial test for the "
    "rest; HMC: stored moves with impossible potential rise under unstable step sizes). Law: exact one-step experiments from stationarity - x0 "
    "drawn exactly from pi^(1/T) (correlated / truncated Gaussians, exponential products, flat boxes, piecewise-constant cells), a fresh sampler per "
    "replica, X1 = first proposal if the first attempt was accepted else x0 - tested by KS, exact chi-square of standardised squared distances and "
    "cell chi-square over all five samplers, T, bounds, Gibbs limits, HMC mass kinds and step sizes near the stability limit.",
    "Convergence is never established by generated search: what is decided is that the first MH attempt leaves pi^(1/T) invariant and that every "
    "observed decision is the MH decision. The same experiment on the stored sample after a complete step demonstrates the redraw-on-rejection loops "
    "(five open known findings, one per take_step / advance site).",
    "Hypothesis PBT over configurations with exact i.i.d. statistical experiments and trace-reconstruction oracle",
)


# ---- what was added to each check after its claim above was written (sub-agent rounds 3-7 and the bug-hunt round, DESIGN.md 8.7-8.12);
# gen_manifest.py appends these sentences to the level text
ADDENDA = {
    "C01": "Added later: `tempering` (real ladders: every exchange decision and every chain's current log-probability), `adapted-pca-box` (first attempt of a bounded "
           "PcaChain whose directions have left the axes, on a flat cube: uniformity by KS and cell chi-square), `long-run` (thousands of adaptive steps on bounded broad / "
           "flat densities, limits declared as boundaries or as non-negativity + upper boundary: thinned tail against the exact truncated law, distinct values).",
    "C02": "Added later: `history` (one long-lived regressor: hyper-parameters switched with fresh arrays, in-place scans and arrays the caller re-uses afterwards; query "
           "buffers re-used) and `forms` (the same whole numbers as int8..int64 / uint8..uint16 / float32 / Fortran / strided arrays and lists, lattice spacings to 20000, "
           "shifted coordinates - judged at float64 accuracy whatever the input type); n = 1 data sets; log-alpha to 30.",
    "C03": "Added later: exchanges through replace_last + probs[-1] (points possibly outside the receiver's bounds, the caller re-using the array it handed over), save / "
           "reload inside histories, plateau targets returning Python ints, `tempering` (real ladders), samplers built from arrays the caller overwrites afterwards. `one-element-density` (a one-parameter log-density written with array arithmetic, returning shape (1,)).",
    "C04": "Added later: one-sided and infinite limits (Bounds and Gibbs parameters), limits held in int8..int64 / float16 / float32 (full-range boxes whose width does not "
           "fit the type), points given by their own value (identity inside is exact), very wide boxes, limits arrays overwritten by the caller after construction.",
    "C05": "Added later: `history` (long-lived objects, memoising / identity forward models, shared parameter buffers, data arrays re-used by the caller), data and "
           "uncertainties as 8..64-bit integers, float16 / float32, Python ints; scales 1e-170 .. 1e170; a single datum as a plain number with a scalar-valued model.",
    "C06": "Added later: `int-forms` (hyper-parameters and theta as integer / narrow-float arrays, wide intervals), Gaussian widths 1e-170 .. 1e170, a caller that adds to the "
           "returned gradient in place, bare priors inside Posterior with call histories and a never-used twin, a t-test of coordinate independence of the draws. Hyper-parameters as numpy scalars / lists of them, variable indices as index arrays, lists of numpy integers or a single numpy integer.",
    "C07": "Added later: mass histories (advance, estimate_mass diagonal / full for d >= 1, reload), integer / int8 / strided / numpy-scalar masses, gradient-free energy "
           "cases, finite-difference estimates up to 1e8 widths from zero and on the upper wall, mass arrays overwritten by the caller.",
    "C08": "Added later: `ladder` (6..16 chains, unsorted temperatures, conservation of points), chains started up to 3000 sd apart (certain / impossible exchanges).",
    "C09": "Added later: max_attempts, numeric forms of what the user hands over (numpy-scalar temperature / mass, float32 widths / start, strided matrix mass, models returning "
           "float32), long histories (save at 480-700 steps, continuation by 340-420), arrays overwritten by the caller after construction. `forms-late` (numeric forms in every case, saved after the first adaptation, continued through the next); tuning attributes (inv_temp, temperature, alpha, steps, ES.epsilon, params.sigma) compared besides the read-outs; temperatures 1.9 / 6.3 (1/(1/T) != T).",
    "C10": "Added later: `forms` (integer / unsigned / float32 coordinates on lattices to spacing 20000), kernels re-used after an earlier data set of another size or dimension, "
           "user-specified bounds on components, log-alpha to 30 with a log1p reference.",
    "C11": "Added later: leave-one-out predictions after set_hyperparameters (fresh arrays and the in-place scan idiom), integer hyper-parameter arrays, mean-function round-off. theta also as int16 / int8 / float32 / float16 arrays.",
    "C12": "Added later: integer evaluation points, whole-number samples as int8..int64 / uint8..uint32 arrays evaluated at points of the same type, cross-validation on a "
           "sub-set (max_cv_samples below the sample size).",
    "C13": "Added later: float16, uint8 / uint32 / uint64 / int8 / int16 / bool, 64-bit integers over the whole range (exact widths in Python integers) and ones a float64 "
           "cannot hold (`rounded_check`: the reported pair is the rounding of an exactly-shortest window); float widths judged in double precision. Byte-swapped arrays (one case in three).",
    "C14": "Added later: a second phase (advance / step / exchange / reload, then read out again), get_interval on empty selections and with fractions 1e-4 .. 0.9999. A top fraction within rounding of a whole number of rows (0.9 of 1000) is that number of rows.",
    "C15": "Added later: `counts-long`, `tempering-counts`, `timed-tempering`; the timed sub-checks meter a virtual clock per step (costs 2e-5 .. 1e3 s with drift, clock epoch "
           "1000 s or 1.79e9 s, ticking or flowing, budgets 0 and 1e-9 s .. 10 h; overshoot at most one second's worth of steps or one step); m as numpy integer scalars. Groups of steps / cycles must be sized for the budget that is left (overshoot: one step or cycle plus the rate uncertainty of the clock).",
    "C16": "Added later: `history` (hyper-parameters switched between derivative calls, in-place) and `forms` (integer / unsigned / float32 data and queries on lattices).",
    "C17": "Added later: `history` and `forms` (narrow-typed data / errors / matrix / positions, data units); precise data (errors to 1e-6 of the signal), conditioning taken "
           "from the better of the two standard forms of the posterior, the evidence judged with cond(A K A^T + S).",
    "C18": "Added later: closed-form reference gradients (UCB / MaxVar / EI), z down to -1e9 with non-zero derivatives of mean and variance (tolerance 1e-11, no z^2 term), "
           "histories with kernel instances (SE, RQ, SE + White, SE + Hetero), rejected-then-proper adds (missing error, NaN value), integer bounds, data arrays re-used by the caller.",
    "C19": "Added later: mirrored samples, cdf far outside / between / at the tails, fractions 1e-4 .. 0.997 and fractions holding 1..40 sample points (mass tolerance "
           "min(5e-4, 2 % of f)). Sharp-edged and broad skewed families (half-normal, gamma k in [1, 3], log-normal s to 0.9), cross-validated KDE bandwidth.",
    "C20": "Added later: conditioning points given as integers, table units 1e-14 .. 1e12, grid scales to 1e10, count tables and whole-number grids in integer arrays.",
}
