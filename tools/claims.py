# claim(id, level text, level note, technique) -- executed by gen_manifest.py
claim(
    "C13",
    "Generated-input search: every generated sample (1-D/2-D, four dtypes, lists/tuples/views, ties, outliers, "
    "fractions at and within ulps of k/n) is decided by an O(n^2) brute-force oracle over all pairs of sample values "
    "(end points are sample values, coverage >= f*n in exact rational arithmetic, no pair holding as many points is "
    "shorter) plus exact metamorphic relations (column-wise = 1-D, permutation, exact and generic positive affine maps, "
    "input untouched, documented ValueErrors). Exploration, not proof: absence is only shown for the cases generated.",
    "Trusts numpy sort/searchsorted for the oracle; integer inputs limited to |v| < 2**40 so float64 holds them; NaN-free samples.",
    "Hypothesis PBT with brute-force oracle and metamorphic relations",
)
