#!/venv/bin/python
"""Regenerate /verif/MANIFEST.json from the table below (keeps the file valid at all times)."""
import json
import os
import sys

HERE = os.path.dirname(os.path.dirname(os.path.abspath(__file__)))

# id -> (design section, level text, level note, technique)
CLAIMED = {}
ADDENDA = {}


def claim(pid, text, note, technique):
    CLAIMED[pid] = (text, note, technique)


exec(open(os.path.join(HERE, "tools", "claims.py")).read())

PENDING_REASON = ("check not built yet in this round (design in DESIGN.md section 4); the technique applies, "
                  "nothing is claimed until the check is registered")


def main():
    ids = [json.loads(l)["id"] for l in open(os.path.join(HERE, "properties.jsonl"))]
    checks = []
    na = []
    for pid in ids:
        if pid in CLAIMED:
            text, note, technique = CLAIMED[pid]
            text = text + (" " + ADDENDA[pid] if pid in ADDENDA else "")
            checks.append({
                "property_id": pid,
                "quick_cmd": f"/venv/bin/python /verif/check.py {pid} --tier quick",
                "thorough_cmd": f"/venv/bin/python /verif/check.py {pid} --tier thorough",
                "evidence_file": f"/verif/evidence/{pid}.json",
                "replay_cmd_template": f"/venv/bin/python /verif/check.py {pid} --replay {{path}}",
                "engine": "hypothesis-runner",
                "level_claimed": {"category": "exploration", "text": text, "design_ref": f"DESIGN.md section 4, {pid}"},
                "level_note": note,
                "technique": technique,
            })
        else:
            na.append({"property_id": pid, "reason": PENDING_REASON})
    hooks_commits = []
    hc = os.path.join(HERE, "tools", "hook_commits.txt")
    if os.path.exists(hc):
        hooks_commits = [l.split()[0] for l in open(hc) if l.strip() and not l.startswith("#")]
    doc = {
        "version": 1,
        "setup_cmd": ("/venv/bin/pip install --no-index --find-links /opt/veriftools/wheels hypothesis >/dev/null && "
                      "/venv/bin/pip install --no-index --find-links /opt/veriftools/wheels --upgrade --target /verif/.deps "
                      "mpmath jsonschema >/dev/null"),
        "hooks": {
            "guard": "INFERENCE_TOOLS_VERIF",
            "enable": ("none needed: observation is by wrapped (recording) posterior callables and by import-order control "
                       "of numpy.random.default_rng (vlib/rngctl.py); /repo is imported from its working tree, nothing is built"),
            "baseline_off_cmd": "cd /repo && /venv/bin/python -m pytest -ra -q -p no:cacheprovider --timeout=900 --continue-on-collection-errors",
            "source_commits": hooks_commits,
            "add_only": True,
        },
        "engines": [{
            "name": "hypothesis-runner",
            "path": "/verif/check.py",
            "serves_properties": sorted(CLAIMED),
            "kind_free_text": ("Hypothesis 6.168 property-based / model-based generation over JSON cases with explicit oracles, "
                               "16-way sharded, deterministic per VERIF_SEED, shrunk failures saved as replay files"),
        }],
        "checks": checks,
        "not_applicable": na,
        "notes": ("One runner (check.py) for all properties; sub-checks and oracles per property are in props/. "
                  "Exit 2 is a harness error and never a violation. known_findings.json lists recorded defects."),
    }
    path = os.path.join(HERE, "MANIFEST.json")
    with open(path, "w") as f:
        json.dump(doc, f, indent=1)
    sys.path.append(os.path.join(HERE, ".deps"))
    try:
        import jsonschema

        jsonschema.validate(doc, json.load(open("/root/.vp/MANIFEST.schema.json")))
        print("MANIFEST valid;", len(checks), "claimed,", len(na), "pending")
    except ImportError:
        print("jsonschema missing; not validated")


if __name__ == "__main__":
    main()
