#!/bin/bash
# usage: tryseed.sh <seeddir> <ID> [check args]  - apply the seed's patch on /repo HEAD in a scratch worktree, run the LIVE check
sd=$1; id=$2; shift 2
wt=/tmp/scratch/ts-$id-$$
git -C /repo worktree add --detach $wt HEAD >/dev/null 2>&1
if ! git -C $wt apply $sd/$id-out/patch.diff 2>/dev/null; then
  if ! (cd $wt && patch -p1 -s --no-backup-if-mismatch < $sd/$id-out/patch.diff); then echo "patch does not apply to HEAD"; git -C /repo worktree remove --force $wt; exit 3; fi
fi
VERIF_REPO=$wt /venv/bin/python /verif/check.py $id "$@" 2>&1 | grep -E "^VIOLATION|key=|violations=|HARNESS" | cut -c1-220 | head -8 | tee /tmp/scratch/check-$id.log
alt=/verif/.work/alt-$(basename $wt)/replays/$id
if [ -d "$alt" ]; then mkdir -p /verif/regress/$id; for f in $alt/*.json; do [ -e "$f" ] && cp $f /verif/regress/$id/${SEED_TAG:-seed}-$(basename $f); done; fi
git -C /repo worktree remove --force $wt; rm -rf /verif/.work/alt-$(basename $wt)
