#!/bin/bash
# thorough tier of every property (or the ids given), one after another; summary lines to thorough.log in the cwd
here="$(cd "$(dirname "$0")/.." && pwd)"
cd "$here"
[ -d .deps ] || /venv/bin/pip install --no-index --find-links /opt/veriftools/wheels --target "$here/.deps" mpmath jsonschema >/dev/null 2>&1
ids="${@:-C13 C05 C06 C10 C02 C11 C16 C17 C18 C12 C20 C14 C03 C15 C09 C04 C07 C19 C08 C01}"
for id in $ids; do
  start=$(date +%s)
  /venv/bin/python check.py $id --tier thorough > thorough-$id.out 2>&1
  rc=$?
  echo "$id rc=$rc secs=$(( $(date +%s) - start )) $(grep -c '^VIOLATION' thorough-$id.out) violations :: $(tail -1 thorough-$id.out | cut -c1-160)" >> thorough.log
done
echo ALLDONE >> thorough.log
