#!/bin/bash
# re-run the whole mutant catalogue against the current /repo HEAD; writes mutants/RESULTS.md
# usage: tools/run_mutants.sh [pattern]      (each mutant: scratch worktree under /tmp, quick tier of its property)
cd "$(dirname "$0")/.."; here=$PWD
out=${MUT_OUT:-mutants/RESULTS.md}
tmp=$(mktemp)
echo "# Mutant catalogue results ($(date -u +%F), /repo $(git -C /repo rev-parse --short HEAD), quick tier, VERIF_SEED=${VERIF_SEED:-1})" > $tmp
echo >> $tmp
echo "| mutant | property | result | first keys |" >> $tmp
echo "|---|---|---|---|" >> $tmp
[ -d .deps ] || /venv/bin/pip install --no-index --find-links /opt/veriftools/wheels --target .deps mpmath jsonschema >/dev/null 2>&1
for f in mutants/${1:-c}*.diff; do
  name=$(basename $f .diff)
  id=$(echo $name | cut -c1-3 | tr c C)
  dir=/tmp/scratch/mutrun-$$-$name
  git -C /repo worktree add --detach $dir HEAD >/dev/null 2>&1 || { echo "| $name | $id | worktree failed | |" >> $tmp; continue; }
  if ! git -C $dir apply $here/$f 2>/dev/null; then
    echo "| $name | $id | does not apply to HEAD (written against an earlier tree) | |" >> $tmp
  else
    log=$(VERIF_REPO=$dir /venv/bin/python check.py $id --tier quick 2>&1)
    n=$(echo "$log" | grep -c '^VIOLATION')
    keys=$(echo "$log" | grep 'key=' | head -3 | sed 's/ *key=//' | tr '\n' ' ')
    if [ $n -gt 0 ]; then res="KILLED ($n keys)"; else res="survived"; fi
    echo "| $name | $id | $res | $keys |" >> $tmp
  fi
  git -C /repo worktree remove --force $dir >/dev/null 2>&1
  rm -rf $here/.work/alt-$(basename $dir)
done
mv $tmp $out
echo done
