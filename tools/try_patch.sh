#!/bin/bash
# usage: tools/try_patch.sh <patch.diff> <ID> [check.py args...]
# applies the patch to a scratch worktree of /repo under /tmp, runs the check against it, removes the worktree
set -u
patch="$(realpath "$1")"; shift
name="wt-$$-$(basename "$patch" .diff)"
dir="/tmp/scratch/$name"
mkdir -p /tmp/scratch
git -C /repo worktree add --detach "$dir" HEAD >/dev/null 2>&1 || { echo "worktree failed"; exit 3; }
# carry uncommitted repo changes too (none expected)
if ! git -C "$dir" apply "$patch"; then echo "patch does not apply"; git -C /repo worktree remove --force "$dir"; exit 3; fi
VERIF_REPO="$dir" /venv/bin/python /verif/check.py "$@"
rc=$?
git -C /repo worktree remove --force "$dir"
rm -rf "/verif/.work/alt-$name"
exit $rc
