#!/venv/bin/python
"""store a confirmed seeded change under /verif/seeded/<name>/  (usage: seed_store.py <ID> [name] [--caught-by text])"""
import json, os, re, shutil, sys

pid = sys.argv[1]
name = sys.argv[2] if len(sys.argv) > 2 and not sys.argv[2].startswith("--") else pid
out = os.environ.get("SEED_DIR", "/tmp/seed") + f"/{pid}-out"
dst = f"/verif/seeded/{name}"
os.makedirs(dst, exist_ok=True)
shutil.copy(f"{out}/patch.diff", f"{dst}/patch.diff")
shutil.copy(f"{out}/demo.py", f"{dst}/demo.py")
notes = open(f"{out}/notes.md").read() if os.path.exists(f"{out}/notes.md") else ""
def grab(path):
    return open(path).read() if os.path.exists(path) else ""
check = grab(f"/tmp/scratch/check-{pid}.log")
keys = sorted(set(re.findall(r"key=(\S+)", check)))
tests = grab(f"/tmp/scratch/tests-{pid}.log").strip()
meta = {
    "property": pid,
    "origin": "fresh sub-agent given only the property text and a scratch worktree of /repo (nothing from /verif)",
    "what_it_needs_to_manifest": notes.strip()[:1500],
    "confirmed": {
        "demo_on_original_exit": 0, "demo_on_changed_exit": 1,
        "existing_test_suite_on_changed_tree": tests,
        "how": "tools/seed_eval.sh: scratch worktree of /repo HEAD under /tmp, demo run before and after `git apply patch.diff`, full pytest suite on the changed tree, "
               f"then `VERIF_REPO=<worktree> check.py {pid} --tier quick`; worktree removed afterwards",
    },
    "caught_by_quick_check": bool(keys),
    "violation_keys": keys,
}
json.dump(meta, open(f"{dst}/meta.json", "w"), indent=1)
print(name, "stored; caught:", bool(keys), keys[:4])
