"""C11 - GP model-selection scores and their gradients are what they claim to be.

Oracles: multivariate-normal log-density by an eigendecomposition route (mpmath LU + log-det for
n <= 10), brute-force leave-one-out by actually deleting each point and solving the reduced system,
5-point stencils for the value-and-gradient variants, and (for automatic selection) the advertised
bounds box and the score at its centre.
"""
import warnings

import numpy as np
import mpmath as mp
import scipy.linalg as sla
from hypothesis import strategies as st

from vlib import rngctl  # noqa: F401
from vlib import refkernels as rk, gpcases as gc, numdiff
from vlib.core import Sub, Violation, Inconclusive
from inference.gp import GpRegressor

mp.mp.dps = 40
EPS = np.finfo(float).eps
LOG2PI = float(np.log(2 * np.pi))
RULE = ("cases = GP problems (n in 2..20, d in 1..3, kernel grammar, three means, four noise modes) and one or two "
        "hyper-parameter vectors; non-trivial = n >= 4 with noise (data noise or a noise kernel) and >= 3 hyper-parameters, "
        "condition number <= 1e8")
ASSUMPTIONS = ["tolerance (1e-9 + 100*kappa*eps) times the magnitude of the terms summed; kappa > 1e8 cases are inconclusive",
               "leave-one-out scores compared as differences between two hyper-parameter vectors (independent of the additive constant)"]


def setup(case, second=False):
    X, y, xs, ys = gc.arrays(case)
    d, n = case["d"], case["n"]
    spec = case["kernel"]
    noise_kw, S = gc.noise_matrix(case, ys)
    th_cov = gc.theta_from_unit(spec, case, X, ys)
    th_mean = gc.mean_theta(case, X, y, ys)[: rk.mean_n_params(case["mean"], d)]
    if case.get("theta_form", "float") != "float":
        # whole-number hyper-parameters (which a caller may hold in an integer array or a list of Python ints)
        kinds = rk.param_kinds(spec, n, d)
        rc = np.round(th_cov)
        if all(rc[i] > 0 for i, k in enumerate(kinds) if k == "width") and np.all(np.abs(rc) < 2**31) and np.all(np.abs(np.round(th_mean)) < 2**31):
            th_cov, th_mean = rc, np.round(th_mean)
    return X, y, xs, ys, spec, noise_kw, S, th_cov, th_mean


def theta_arg(case, theta):
    """the hyper-parameter vector in the form the caller holds it in"""
    form = case.get("theta_form", "float")
    if form == "float" or not np.array_equal(theta, np.round(theta)):
        return theta.copy()
    with np.errstate(all="ignore"):
        out = theta.astype(form)
    # (only forms that hold these whole numbers exactly: int8 to 127, float16 to 2048)
    return out if np.array_equal(out.astype(float), theta) else theta.copy()


def second_theta(case, X, y, ys, spec):
    u2 = case["theta_u2"]
    c2 = dict(case)
    c2["mean_u"] = case["mean_u2"]
    th_cov = gc.theta_from_unit(spec, case, X, ys, theta_u=u2)
    th_mean = gc.mean_theta(c2, X, y, ys)[: rk.mean_n_params(case["mean"], case["d"])]
    return th_cov, th_mean


def fit(X, y, noise_kw, spec, mean_kind, theta_all, **kw):
    with warnings.catch_warnings():
        warnings.simplefilter("ignore")
        with np.errstate(all="ignore"):
            return GpRegressor(X, y, hyperpars=theta_all, kernel=rk.build_kernel(spec), mean=rk.build_mean(mean_kind),
                               **noise_kw, **kw)


def ref_scores(case, X, y, S, spec, th_cov, th_mean):
    n = X.shape[0]
    K = rk.ref_build(spec, X, th_cov) + S
    m = rk.ref_mean(case["mean"], X, X, th_mean)
    with np.errstate(all="ignore"):
        kappa = np.linalg.cond(K)
    if not np.isfinite(kappa) or kappa > 1e8:
        return None, kappa
    r = y - m
    if n <= 10:
        A = mp.matrix(K.tolist())
        alpha = mp.lu_solve(A, mp.matrix(r.tolist()))
        quad = float(mp.fsum(mp.mpf(r[i]) * alpha[i] for i in range(n)))
        logdet = float(mp.log(mp.det(A)))
    else:
        w, V = np.linalg.eigh(K)
        z = V.T @ r
        quad = float(np.sum(z**2 / w))
        logdet = float(np.sum(np.log(w)))
    lml = -0.5 * quad - 0.5 * logdet
    scale = 0.5 * abs(quad) + 0.5 * float(np.sum(np.abs(np.log(np.abs(np.linalg.eigvalsh(K)))))) + n
    # brute-force leave-one-out
    mu = np.zeros(n)
    var = np.zeros(n)
    for i in range(n):
        keep = [j for j in range(n) if j != i]
        Kr = K[np.ix_(keep, keep)]
        k = K[keep, i]
        if n - 1 <= 9:
            Ar = mp.matrix(Kr.tolist())
            sol = mp.lu_solve(Ar, mp.matrix(r[keep].tolist()))
            sol2 = mp.lu_solve(Ar, mp.matrix(k.tolist()))
            mu[i] = m[i] + float(mp.fsum(mp.mpf(k[a]) * sol[a] for a in range(n - 1)))
            var[i] = float(mp.mpf(K[i, i]) - mp.fsum(mp.mpf(k[a]) * sol2[a] for a in range(n - 1)))
        else:
            mu[i] = m[i] + k @ sla.solve(Kr, r[keep], assume_a="sym")
            var[i] = K[i, i] - k @ sla.solve(Kr, k, assume_a="sym")
    # round-off of the documented mean function itself (coordinates centred on the centroid carry eps*|x| each, times the slope /
    # curvature coefficients): an absolute error mr in every entry of y - m(x), which enters the scores through K^-1
    mr = 16 * gc.mean_roundoff(case["mean"], th_mean, X)
    Kinv = np.linalg.inv(K)
    alpha_f = Kinv @ r
    ro_lml = mr * float(np.sum(np.abs(alpha_f)))
    ro_mu = mr * (1.0 + (np.abs(Kinv) @ np.ones(n)) / np.abs(np.diag(Kinv)))
    ro_loo = float(np.sum(np.abs(y - mu) / np.maximum(var, 1e-300) * ro_mu))
    return {"lml": lml, "scale": scale, "loo_mu": mu, "loo_var": var, "K": K, "m": m, "ro_lml": ro_lml, "ro_mu": ro_mu, "ro_loo": ro_loo}, kappa


def loo_sum(y, mu, var):
    return float(np.sum(-0.5 * np.log(var) - 0.5 * (y - mu) ** 2 / var))


def nontrivial(case, kappa, n_hyper):
    spec = case["kernel"]
    noisy = case["noise"] != "none" or rk.has(spec, "White") or rk.has(spec, "Hetero")
    return case["n"] >= 4 and noisy and n_hyper >= 3 and kappa <= 1e8


@st.composite
def score_cases(draw, max_n=20):
    case = draw(gc.gp_problems(max_n=max_n, max_d=3, max_m=1, min_n=2))
    case["theta_u2"] = [draw(gc.unit) for _ in case["theta_u"]]
    case["mean_u2"] = [draw(gc.unit) for _ in case["mean_u"]]
    # (an array: the documented type; a Python list is outside the documented domain - list arithmetic differs)
    case["theta_form"] = draw(st.sampled_from(["float", "float", "float", "int64", "int32", "int16", "int8", "float32", "float16"]))
    return case


def check_loo_predictions(gp, ref, kappa, y, spec, tag, ctx, when=""):
    n = y.size
    f = 1e-9 + 100 * kappa * EPS
    with np.errstate(all="ignore"):
        mu, sig = gp.loo_predictions()
    mu, sig = np.asarray(mu, dtype=float), np.asarray(sig, dtype=float)
    if mu.shape != (n,) or sig.shape != (n,):
        raise Violation(f"loo-shape:{tag}", f"loo_predictions shapes {mu.shape}, {sig.shape}")
    prior_sd = np.sqrt(np.maximum(np.diag(ref["K"]), 1e-300))
    sc_mu = np.abs(ref["loo_mu"]) + np.abs(y) + prior_sd * np.sqrt(kappa)
    e1 = np.max(np.abs(mu - ref["loo_mu"]) / (f * sc_mu + ref["ro_mu"]))
    e2 = np.max(np.abs(sig**2 - ref["loo_var"]) / (f * np.diag(ref["K"])))
    ctx.ratio("loo-predictions", max(e1, e2), 1.0)
    if not max(e1, e2) <= 1 or not np.all(np.isfinite(mu)):
        i = int(np.argmax(np.abs(mu - ref["loo_mu"]) / (f * sc_mu + ref["ro_mu"])))
        raise Violation(f"loo-predictions:{tag}", f"{rk.describe(spec)} n={n}{when}: LOO mean[{i}] {mu[i]!r} vs refit {ref['loo_mu'][i]!r}; var {sig[i]**2!r} vs {ref['loo_var'][i]!r} (ratios {e1:.3g}, {e2:.3g})")


def body_scores(case, ctx):
    X, y, xs, ys, spec, noise_kw, S, th_cov, th_mean = setup(case)
    n = case["n"]
    theta = np.concatenate([th_mean, th_cov])
    ref, kappa = ref_scores(case, X, y, S, spec, th_cov, th_mean)
    if ref is None:
        raise Inconclusive("ill-conditioned (kappa > 1e8)")
    tag = "cp" if rk.has(spec, "CP") else spec["k"]
    try:
        gp = fit(X.copy(), y.copy(), noise_kw, spec, case["mean"], theta)
    except np.linalg.LinAlgError:
        raise Violation(f"crash:LinAlgError:{tag}", f"Cholesky failed although kappa = {kappa:.3g}")
    f = 1e-9 + 100 * kappa * EPS
    with np.errstate(all="ignore"), warnings.catch_warnings():
        warnings.simplefilter("ignore")
        lml = float(gp.marginal_likelihood(theta_arg(case, theta)))
        lml_g, _ = gp.marginal_likelihood_gradient(theta_arg(case, theta))
    err = abs(lml - ref["lml"])
    tol_lml = f * ref["scale"] + ref["ro_lml"]
    ctx.ratio("marginal", err, tol_lml)
    if not np.isfinite(lml) or err > tol_lml:
        raise Violation(f"marginal:{tag}", f"{rk.describe(spec)} n={n}: marginal_likelihood {lml!r} vs log N(y; m, K+S) + n/2 log 2pi = {ref['lml']!r} (tol {tol_lml:.3g})")
    if abs(float(lml_g) - lml) > tol_lml:
        raise Violation(f"marginal-gradient-value:{tag}", f"value from marginal_likelihood_gradient {float(lml_g)!r} vs {lml!r}")
    # independent cross-check of the oracle via scipy's multivariate normal
    from scipy.stats import multivariate_normal

    try:
        sp = float(multivariate_normal.logpdf(y, mean=ref["m"], cov=ref["K"], allow_singular=False)) + 0.5 * n * LOG2PI
        if abs(sp - ref["lml"]) > 10 * f * ref["scale"] + 1e-7 * ref["scale"]:
            raise Violation("oracle-disagreement", f"scipy mvn {sp!r} vs reference {ref['lml']!r}")
    except (np.linalg.LinAlgError, ValueError):
        pass
    # leave-one-out predictions (for the hyper-parameters the regressor holds)
    check_loo_predictions(gp, ref, kappa, y, spec, tag, ctx)
    # leave-one-out score difference between two hyper-parameter vectors
    th_cov2, th_mean2 = second_theta(case, X, y, ys, spec)
    ref2, kappa2 = ref_scores(case, X, y, S, spec, th_cov2, th_mean2)
    if ref2 is not None and np.all(ref["loo_var"] > 0) and np.all(ref2["loo_var"] > 0):
        theta2 = np.concatenate([th_mean2, th_cov2])
        with np.errstate(all="ignore"), warnings.catch_warnings():
            warnings.simplefilter("ignore")
            l1, l2 = float(gp.loo_likelihood(theta)), float(gp.loo_likelihood(theta2))
            l1g, _ = gp.loo_likelihood_gradient(theta)
        r1, r2 = loo_sum(y, ref["loo_mu"], ref["loo_var"]), loo_sum(y, ref2["loo_mu"], ref2["loo_var"])
        f2 = 1e-9 + 100 * max(kappa, kappa2) * EPS
        sc = (np.sum(np.abs(np.log(ref["loo_var"]))) + np.sum((y - ref["loo_mu"]) ** 2 / ref["loo_var"])
              + np.sum(np.abs(np.log(ref2["loo_var"]))) + np.sum((y - ref2["loo_mu"]) ** 2 / ref2["loo_var"]) + n)
        # errors in the LOO variances are amplified by 1/var relative to the prior variance
        amp = max(np.max(np.diag(ref["K"]) / ref["loo_var"]), np.max(np.diag(ref2["K"]) / ref2["loo_var"]))
        tol = f2 * sc * max(1.0, amp) + ref["ro_loo"] + ref2["ro_loo"]
        e = abs((l1 - l2) - (r1 - r2))
        ctx.ratio("loo-score", e, tol)
        if not np.isfinite(l1 - l2) or e > tol:
            raise Violation(f"loo-score:{tag}", f"{rk.describe(spec)} n={n}: loo_likelihood difference {l1 - l2!r} vs refit difference {r1 - r2!r} (tol {tol:.3g})")
        if abs(float(l1g) - l1) > tol:
            raise Violation(f"loo-gradient-value:{tag}", f"value from loo_likelihood_gradient {float(l1g)!r} vs {l1!r}")
        ctx.event("loo-score-compared")
    # the regressor is long-lived: after its hyper-parameters are replaced (set_hyperparameters is what both optimisers and users
    # call), its leave-one-out predictions are those of the hyper-parameters it holds now - and again after switching back
    if ref2 is not None:
        with np.errstate(all="ignore"), warnings.catch_warnings():
            warnings.simplefilter("ignore")
            # (the caller's scan idiom: one array, changed in place and passed again - half of the cases)
            buf = np.concatenate([th_mean2, th_cov2])
            gp.set_hyperparameters(buf)
        check_loo_predictions(gp, ref2, kappa2, y, spec, tag, ctx, when=" after set_hyperparameters(second vector)")
        with np.errstate(all="ignore"), warnings.catch_warnings():
            warnings.simplefilter("ignore")
            if case["seed"] % 2:
                buf[:] = theta
                gp.set_hyperparameters(buf)
                ctx.event("hyper-parameter array changed in place and passed again")
            else:
                gp.set_hyperparameters(theta.copy())
        check_loo_predictions(gp, ref, kappa, y, spec, tag, ctx, when=" after switching back to the first vector")
        ctx.event("loo-predictions-after-hyperparameter-switch")
    ctx.nontrivial(nontrivial(case, kappa, theta.size))
    ctx.event("kernel=" + tag)
    ctx.event(f"noise={case['noise']}")
    ctx.event("n<=10(mp)" if n <= 10 else "n>10")


def body_gradients(case, ctx):
    X, y, xs, ys, spec, noise_kw, S, th_cov, th_mean = setup(case)
    n, d = case["n"], case["d"]
    theta = np.concatenate([th_mean, th_cov])
    with np.errstate(all="ignore"):
        kappa = np.linalg.cond(rk.ref_build(spec, X, th_cov) + S)
    if not np.isfinite(kappa) or kappa > 1e5:
        raise Inconclusive("ill-conditioned (kappa > 1e5) for stencils")
    tag = "cp" if rk.has(spec, "CP") else spec["k"]
    gp = fit(X.copy(), y.copy(), noise_kw, spec, case["mean"], theta)
    kinds = ["mean"] * th_mean.size + rk.param_kinds(spec, n, d)
    span = gc.effective_span(X)
    for name, plain, both in (("marginal", gp.marginal_likelihood, gp.marginal_likelihood_gradient),
                              ("loo", gp.loo_likelihood, gp.loo_likelihood_gradient)):
        with np.errstate(all="ignore"), warnings.catch_warnings():
            warnings.simplefilter("ignore")
            val, grad = both(theta_arg(case, theta))
            pv = float(plain(theta_arg(case, theta)))
        grad = np.asarray(grad, dtype=float)
        if grad.shape != (theta.size,):
            raise Violation(f"{name}-gradient-shape:{tag}", f"gradient shape {grad.shape} for {theta.size} hyper-parameters")
        if abs(float(val) - pv) > 1e-9 * (abs(pv) + n) * max(1.0, kappa * 1e-6):
            raise Violation(f"{name}-gradient-value:{tag}", f"{float(val)!r} vs plain {pv!r}")

        def fplain(th):
            with warnings.catch_warnings():
                warnings.simplefilter("ignore")
                with np.errstate(all="ignore"):
                    return float(plain(th))

        for i in range(theta.size):
            if kinds[i] == "log":
                h = 2e-3
            elif kinds[i] == "mean":
                j = i
                h = 1e-3 * (ys if j == 0 else (ys / span[(j - 1) % d] if j <= d else ys / span[(j - 1 - d) % d] ** 2))
            elif kinds[i] == "width":
                h = min(2e-3 * abs(theta[i]), theta[i] / 16)
            else:
                h = 2e-3 * abs(theta[i + 1])
            err, tol, conv = numdiff.compare(grad[i], fplain, theta, i, h, rel=1e-5)
            if not conv:
                ctx.inconclusive["stencil-not-converged"] += 1
                continue
            # round-off of the score itself is amplified by the condition number of the solve
            tol = tol + 100 * kappa * EPS * (abs(pv) + n) / h + 1e-9 * np.max(np.abs(grad))
            ctx.ratio(f"{name}-gradient", err, tol)
            if not np.isfinite(err) or err > tol:
                raise Violation(f"{name}-gradient:{tag}:{kinds[i]}", f"{rk.describe(spec)} n={n}: d {name} / d theta[{i}] ({kinds[i]}) = {grad[i]!r}, stencil differs by {err:.3g} (tol {tol:.3g})")
    ctx.nontrivial(nontrivial(case, kappa, theta.size))
    ctx.event("kernel=" + tag)
    ctx.event(f"mean={case['mean']}")
    ctx.event("theta-form=" + (case.get("theta_form", "float") if np.array_equal(theta, np.round(theta)) else "float"))


@st.composite
def selection_cases(draw):
    case = draw(gc.gp_problems(max_n=10, max_d=2, max_m=1, min_n=5, kernels=["SE", "RQ", "White"], max_depth=2,
                               noises=("none", "y_err"), means=("Constant", "Linear")))
    case["optimizer"] = draw(st.sampled_from(["bfgs", "diffev"]))
    case["cross_val"] = draw(st.booleans())
    case["n_starts"] = draw(st.sampled_from([None, 1, 1, 2]))
    return case


def body_selection(case, ctx):
    X, y, xs, ys = gc.arrays(case)
    spec = case["kernel"]
    if rk.has(spec, "CP"):
        raise Inconclusive("change-point kernels excluded from the (expensive) optimiser runs")
    if np.ptp(y) <= 1e-6 * ys or np.std(y) <= 1e-6 * ys or np.any(np.ptp(X, axis=0) <= 1e-6 * (np.abs(X).max(axis=0) + xs)):
        raise Inconclusive("degenerate data for bound estimation")
    noise_kw, S = gc.noise_matrix(case, ys)
    tag = f"{case['optimizer']}:{'loo' if case['cross_val'] else 'marginal'}"
    with warnings.catch_warnings():
        warnings.simplefilter("ignore")
        with np.errstate(all="ignore"):
            try:
                gp = GpRegressor(X.copy(), y.copy(), kernel=rk.build_kernel(spec), mean=rk.build_mean(case["mean"]),
                                 optimizer=case["optimizer"], cross_val=case["cross_val"], n_starts=case.get("n_starts"),
                                 **noise_kw)
            except np.linalg.LinAlgError:
                raise Inconclusive("Cholesky failure inside the optimiser (ill-conditioned start)")
    hp = np.asarray(gp.hyperpars, dtype=float)
    lo = np.array([b[0] for b in gp.hp_bounds], dtype=float)
    hi = np.array([b[1] for b in gp.hp_bounds], dtype=float)
    slack = 1e-12 * (np.abs(lo) + np.abs(hi) + 1.0)
    if hp.shape != lo.shape or np.any(hp < lo - slack) or np.any(hp > hi + slack):
        raise Violation(f"selection-bounds:{tag}", f"selected hyper-parameters {hp} leave the advertised bounds {list(zip(lo, hi))}")
    if case["optimizer"] == "bfgs":
        centre = 0.5 * (lo + hi)
        with warnings.catch_warnings():
            warnings.simplefilter("ignore")
            with np.errstate(all="ignore"):
                s_sel = float(gp.model_selector(hp))
                s_cen = float(gp.model_selector(centre))
        if np.isfinite(s_cen) and not s_sel >= s_cen - 1e-9 * abs(s_cen) - 1e-12:
            raise Violation(f"selection-centre:{tag}", f"selected score {s_sel!r} is worse than the score at the centre of the bounds {s_cen!r}")
    ctx.nontrivial(True)
    ctx.event(tag)
    ctx.event(f"n_starts={case.get('n_starts')}")


SUBCHECKS = [
    Sub("scores", lambda t: score_cases(20 if t == "thorough" else 14), body_scores, quick=900, thorough=40000,
        shards_quick=10, shards_thorough=16, rule="n >= 4 with noise and >= 3 hyper-parameters, kappa <= 1e8"),
    Sub("gradients", lambda t: score_cases(12), body_gradients, quick=500, thorough=20000, shards_quick=10, shards_thorough=16,
        rule="n >= 4 with noise and >= 3 hyper-parameters, kappa <= 1e5"),
    Sub("selection", lambda t: selection_cases(), body_selection, quick=120, thorough=1500, shards_quick=8, shards_thorough=16,
        weight=200, rule="every completed optimiser run (both optimisers x both criteria)"),
]
