"""C15 - advancing a sampler adds exactly the requested number of samples.

Model-based histories: an integer model of the chain length is updated by every advance / take_step and
compared with chain_length and the sizes of the three read-outs after every operation; ChainPool against
serially advanced deep copies (bit for bit); timed runs under a virtual clock owned by the harness.
"""
import copy
import warnings

import numpy as np
from hypothesis import strategies as st

from vlib import rngctl  # noqa: F401
from vlib import samplers as S
from vlib.core import Sub, Violation, Inconclusive

RULE = ("histories of advance(m) / take_step over every sampler class (m in {0, 1..99, 100, 101..350}, ensemble iterations 0..6 incl. 0 "
        "as the very first call); pools of 1..4 chains; timed runs with step cost 1e-6..1e3 virtual seconds and budgets 0.5 s..10 h; "
        "non-trivial = history with m=0, an m<100 and a non-multiple >=100 (counts); >=2 chains of different classes (pool); "
        "step cost > 1 s with a budget of > 20 steps (timed)")
ASSUMPTIONS = ["the virtual clock replaces inference.mcmc.base.time and is advanced only by posterior evaluations"]


@st.composite
def history_cases(draw):
    cfg = draw(S.sampler_configs(bounds="maybe"))
    ops = []
    ens = cfg["cls"] == "ensemble"
    for _ in range(draw(st.integers(2, 8))):
        if ens:
            ops.append({"op": "advance", "m": draw(st.sampled_from([0, 0, 1, 2, 3, 6]))})
        else:
            kind = draw(st.sampled_from(["advance", "advance", "advance", "step"]))
            if kind == "step":
                ops.append({"op": "step", "m": draw(st.integers(1, 3))})
            else:
                m = draw(st.one_of(st.sampled_from([0, 0, 100, 200]), st.integers(1, 99), st.integers(101, 350)))
                # a count read from an array is a numpy integer scalar, of whatever width the array has
                ops.append({"op": "advance", "m": m, "m_type": draw(st.sampled_from([None, None, None, "uint8", "int8", "int16", "uint16", "int32", "int64"]))})
    cfg["ops"] = ops
    return cfg


def sizes(ch):
    with np.errstate(all="ignore"):
        s = np.asarray(ch.get_sample(burn=0))
        p = np.asarray(ch.get_probabilities(burn=0))
    return s, p


def body_counts(case, ctx):
    ch, tgt, info = S.build(case, record=False)
    cls = case["cls"]
    nw = S.walkers(case)
    expected = 0 if cls == "ensemble" else 1
    seen = set()
    for k, op in enumerate(case["ops"]):
        with warnings.catch_warnings():
            warnings.simplefilter("ignore")
            with np.errstate(all="ignore"):
                if op["op"] == "advance":
                    m_arg = op["m"]
                    if op.get("m_type") and op["m"] <= np.iinfo(op["m_type"]).max:
                        m_arg = np.dtype(op["m_type"]).type(op["m"])
                        ctx.event("m given as numpy " + op["m_type"])
                    ch.advance(m_arg)
                    expected += op["m"] * nw
                    seen.add("0" if op["m"] == 0 else ("<100" if op["m"] < 100 else ("mult" if op["m"] % 100 == 0 else "nonmult")))
                else:
                    for _ in range(op["m"]):
                        ch.take_step()
                    expected += op["m"]
        if ch.chain_length != expected:
            raise Violation(f"chain_length:{cls}", f"after {case['ops'][:k + 1]}: chain_length {ch.chain_length}, expected {expected}")
        if expected == 0 and cls == "ensemble":
            continue  # nothing stored yet: the read-outs have nothing to return
        s, p = sizes(ch)
        d = case["d"]
        if s.shape != (expected, d) or p.shape != (expected,):
            raise Violation(f"readout-size:{cls}", f"after {case['ops'][:k + 1]}: get_sample {s.shape}, get_probabilities {p.shape}, expected {expected} rows")
        par = np.asarray(ch.get_parameter(0, burn=0))
        if par.shape != (expected,) and not (expected == 1 and par.shape == ()):
            raise Violation(f"readout-size:{cls}", f"get_parameter {par.shape}, expected ({expected},)")
    ctx.nontrivial({"0", "<100", "nonmult"} <= seen or (cls == "ensemble" and "0" in seen and len(case["ops"]) >= 3))
    ctx.event("cls=" + cls)
    for tag in seen:
        ctx.event("m:" + tag)
    if case["ops"][0]["op"] == "advance" and case["ops"][0]["m"] == 0:
        ctx.event("first-op-advance0")


# ------------------------------------------------------------------ long single advances (every digit pattern of m)
@st.composite
def long_cases(draw):
    cls = draw(st.sampled_from(["gibbs", "metropolis", "metropolis", "pca", "ensemble"]))
    d = 2 if cls == "pca" else (draw(st.integers(1, 2)) if cls != "ensemble" else 1)
    cfg = {"seed": draw(st.integers(0, 2**31)), "cls": cls, "d": d,
           "target": {"kind": "gauss", "d": d, "mean": [0.0] * d, "chol": [[1.0 if i == j else 0.0 for j in range(d)] for i in range(d)]},
           "start_u": [draw(st.floats(-1, 1)) for _ in range(d)], "width_log": [0.0] * d, "T": 1.0, "bounds": None,
           "display_progress": draw(st.booleans()), "limits": [], "limit_half": [1.0] * d,
           "ens": {"extra_walkers": 1, "alpha": 2.0}}
    top = {"gibbs": 60, "metropolis": 120, "pca": 30, "ensemble": 6}[cls]
    thousands = draw(st.one_of(st.integers(0, 12), st.integers(0, top)))
    cfg["m"] = thousands * 1000 + draw(st.integers(0, 9)) * 100 + draw(st.one_of(st.sampled_from([0, 0, 50]), st.integers(0, 99)))
    cfg["pre"] = draw(st.sampled_from([0, 0, 3]))
    return cfg


def body_long(case, ctx):
    ch, tgt, info = S.build(case, record=False)
    nw = S.walkers(case)
    m = case["m"]
    with warnings.catch_warnings(), np.errstate(all="ignore"):
        warnings.simplefilter("ignore")
        if case["pre"]:
            ch.advance(case["pre"])
        before = int(ch.chain_length)
        ch.advance(m)
    added = int(ch.chain_length) - before
    if added != m * nw:
        raise Violation(f"chain_length:{case['cls']}:long", f"advance({m}) added {added} entries, expected {m * nw}")
    if before + added > 0:
        s, p = sizes(ch)
        if s.shape[0] != before + added or p.shape[0] != before + added:
            raise Violation(f"readout-size:{case['cls']}:long", f"after advance({m}): {s.shape[0]} samples, {p.shape[0]} log-probabilities, chain_length {before + added}")
    ctx.nontrivial(m >= 1000 and m % 1000 != 0 and m % 100 != 0)
    ctx.event("cls=" + case["cls"])
    ctx.event("m>=10000" if m >= 10000 else ("m>=1000" if m >= 1000 else "m<1000"))
    ctx.event("m%1000>=100" if m % 1000 >= 100 else "m%1000<100")


# ------------------------------------------------------------------ pool vs serial
@st.composite
def pool_cases(draw):
    k = draw(st.integers(1, 4))
    chains = [draw(S.sampler_configs(classes=["gibbs", "pca", "hmc", "metropolis"], max_d=3, bounds="maybe")) for _ in range(k)]
    return {"seed": draw(st.integers(0, 2**31)), "chains": chains, "n": draw(st.sampled_from([0, 1, 7, 40, 100, 130])),
            "n2": draw(st.sampled_from([0, 5, 30]))}


def readouts(ch):
    with np.errstate(all="ignore"):
        return np.asarray(ch.get_sample(burn=0)), np.asarray(ch.get_probabilities(burn=0))


def body_pool(case, ctx):
    from inference.mcmc import ChainPool

    built = []
    for i, cfg in enumerate(case["chains"]):
        ch, tgt, info = S.build(cfg, record=False)
        built.append(ch)
    serial = [copy.deepcopy(c) for c in built]   # generator states included
    with warnings.catch_warnings():
        warnings.simplefilter("ignore")
        with np.errstate(all="ignore"):
            for c in serial:
                c.advance(case["n"])
                c.advance(case["n2"])
            pool = ChainPool(built)
            try:
                pool.advance(case["n"])
                pool.advance(case["n2"])
                got = pool.chains
            finally:
                pool.pool.terminate()
                pool.pool.join()
    if len(got) != len(serial):
        raise Violation("pool-size", f"{len(got)} chains returned for {len(serial)}")
    for i, (a, b) in enumerate(zip(got, serial)):
        sa, pa = readouts(a)
        sb, pb = readouts(b)
        cls = case["chains"][i]["cls"]
        if a.chain_length != b.chain_length or sa.shape != sb.shape:
            raise Violation(f"pool-length:{cls}", f"chain {i}: pool {a.chain_length} / {sa.shape}, serial {b.chain_length} / {sb.shape}")
        if not (np.array_equal(sa, sb) and np.array_equal(pa, pb)):
            raise Violation(f"pool-state:{cls}", f"chain {i} ({cls}): pool-advanced chain differs from the serially advanced copy")
    ctx.nontrivial(len({c["cls"] for c in case["chains"]}) >= 2)
    ctx.event(f"pool_size={len(built)}")
    for c in case["chains"]:
        ctx.event("cls=" + c["cls"] + (":quiet" if not c["display_progress"] else ""))


# ------------------------------------------------------------------ timed runs under a virtual clock
class Livelock(Exception):
    pass


class VirtualClock:
    def __init__(self, resolution=0.0, epoch=1000.0):
        self.t = float(epoch)            # time() counts seconds from 1970: about 1.8e9 today (float spacing 2.4e-7 s there)
        self.reads_since_step = 0
        self.steps_seen = 0
        self.resolution = resolution     # a clock that ticks (15.6 ms on some platforms) rather than flows

    def advance(self, dt):
        self.t += dt
        self.reads_since_step = 0

    def time(self):
        self.reads_since_step += 1
        if self.reads_since_step > 1000:
            raise Livelock()
        return self.t if not self.resolution else np.floor(self.t / self.resolution) * self.resolution


@st.composite
def timed_cases(draw, classes=("gibbs", "pca", "hmc", "metropolis")):
    cfg = draw(S.sampler_configs(classes=list(classes), max_d=3, bounds="never", temperature="never",
                                 target_kinds=("gauss",)))
    cfg["cost_log"] = draw(st.floats(-5.5, 3))
    unit = draw(st.sampled_from(["minutes", "hours", "days", "mixed"]))
    cfg["budget_steps_log"] = draw(st.floats(0, 3.5))   # budget expressed in (approximate) steps
    cfg["unit"] = unit
    cfg["pre_steps"] = draw(st.sampled_from([0, 0, 30, 300, 2000]))   # samples already held by the chain before the timed run
    cfg["zero_budget"] = draw(st.integers(0, 11)) == 0                  # "every time budget": also none at all
    cfg["clock_res"] = draw(st.sampled_from([0.0, 0.0, 0.0, 1e-3, 0.015625]))   # resolution of the clock the library reads
    # steps need not all cost the same: up to twice the first one's cost, rising, falling or alternating
    cfg["drift"] = draw(st.sampled_from([1.0, 1.0, 1.3, 2.0]))
    cfg["drift_kind"] = draw(st.sampled_from(["up", "down", "alternate"]))
    cfg["drift_len"] = draw(st.sampled_from([3, 30, 1000]))
    cfg["clock_epoch"] = draw(st.sampled_from([1000.0, 1.79e9]))                 # what the clock reads when the run starts
    # "every time budget": also budgets far below one step / one second
    cfg["tiny_budget_log"] = draw(st.floats(-9, -1)) if draw(st.integers(0, 7)) == 0 else None
    return cfg


def body_timed(case, ctx):
    import inference.mcmc.base as base
    import inference.mcmc.utilities as util

    ch, tgt, info = S.build(case, record=False)
    clock = VirtualClock(case.get("clock_res", 0.0), case.get("clock_epoch", 1000.0))
    cost0 = 10.0 ** case["cost_log"]
    drift, drift_kind, drift_len = float(case.get("drift", 1.0)), case.get("drift_kind", "up"), int(case.get("drift_len", 10))
    # the last group of a run may hold a (virtual) second or two of steps: keep that to a number of real steps that a case can afford
    # (4e3 for HMC, whose steps are trajectories, 5e4 otherwise) by raising the cost of the cheapest steps
    cost0 = max(cost0, (2.0 if case.get("clock_res") else 1.0) * drift / (4e3 if case["cls"] == "hmc" else 5e4))
    if case["cls"] == "ensemble" or not hasattr(ch, "take_step"):
        # (no per-step entry point to meter: the clock moves with the evaluations of the target)
        tgt.clock = clock
        tgt.cost = cost0
        n0 = tgt.n_calls
        with np.errstate(all="ignore"):
            ch.advance(1)
        per_step = max((tgt.n_calls - n0) / S.walkers(case), 1.0) * tgt.cost   # per stored sample
        c_min = c_max = per_step
    else:
        # the cost per step is the quantity the property quantifies over: every step moves the clock by a stated amount, which may
        # drift by the factor `drift` over the run (steps get slower as a chain leaves a cheap region, or faster) - not by a random
        # amount per evaluation, which would make "one second's worth of steps" a matter of luck
        real_step = ch.take_step
        k_step = [0]

        def cost_of(k):
            w = min(k / float(drift_len), 1.0)
            if drift_kind == "down":
                w = 1.0 - w
            elif drift_kind == "alternate":
                w = float(k % 2)
            return cost0 * (1.0 + (drift - 1.0) * w)

        def metered_step():
            real_step()
            clock.advance(cost_of(k_step[0]))
            k_step[0] += 1

        ch.take_step = metered_step
        per_step = cost0
        c_min, c_max = cost0, cost0 * drift
    budget = max(per_step * 10.0 ** case["budget_steps_log"], 0.5)
    budget = min(budget, 36000.0)
    if case.get("tiny_budget_log") is not None:
        budget = 10.0 ** case["tiny_budget_log"]
    if case.get("zero_budget"):
        budget = 0.0
    # express the budget through the documented arguments
    if case["unit"] == "minutes":
        kw = {"minutes": budget / 60.0}
    elif case["unit"] == "hours":
        kw = {"hours": budget / 3600.0}
    elif case["unit"] == "days":
        kw = {"days": budget / 86400.0}
    else:
        kw = {"minutes": budget / 180.0, "hours": budget / 10800.0, "days": budget / 259200.0}
    steps_budget = budget / per_step
    if case.get("pre_steps") and case["cls"] != "ensemble":
        with np.errstate(all="ignore"):
            for _ in range(case["pre_steps"]):
                real_step()                 # (not metered: these happened before the timed run)
    if steps_budget > 3e4:
        raise Inconclusive("budget too many steps for a quick case")
    start_len = ch.chain_length
    t_start = clock.t
    saved = (base.time, util.time)
    base.time = clock.time
    util.time = clock.time
    cls = case["cls"]
    try:
        with warnings.catch_warnings():
            warnings.simplefilter("ignore")
            with np.errstate(all="ignore"):
                ch.run_for(**kw)
    except Livelock:
        raise Violation(f"timed-livelock:{cls}", f"run_for read the clock 1000 times in a row without taking a step (step cost {per_step:.3g} s, budget {budget:.4g} s, "
                                                 f"{ch.chain_length - start_len} steps taken, {clock.t - t_start:.4g} s elapsed)")
    finally:
        base.time, util.time = saved
    taken = ch.chain_length - start_len
    elapsed = clock.t - t_start
    if budget == 0.0:
        # nothing to use up: the run must simply return (at most the progress batch in flight, as below), lengths consistent
        if taken > 0:
            raise Violation(f"timed-overshoot:{cls}", f"zero budget, ran {elapsed:.4g} s ({taken} steps)")
        s_, p_ = readouts(ch)
        if s_.shape[0] != ch.chain_length or p_.shape[0] != ch.chain_length:
            raise Violation(f"timed-lengths:{cls}", f"chain_length {ch.chain_length}, samples {s_.shape}, probabilities {p_.shape}")
        ctx.event("zero-budget")
        return
    if taken < 1:
        raise Violation(f"timed-no-step:{cls}", "run_for returned without taking a step")
    if elapsed < budget * (1 - 1e-9) - clock.resolution - 4 * np.spacing(clock.t):
        raise Violation(f"timed-early:{cls}", f"run_for returned after {elapsed:.6g} s of a {budget:.6g} s budget ({taken} steps)")
    # "and then stops": the clock is read between groups of steps sized for about one progress message per second, so the run may
    # overshoot by the group in flight when the deadline passes - about one second's worth of steps, or one step if a step is slower
    # than that - judged with the mean step cost actually observed in the run.  (An earlier version of this check allowed the
    # implementation's hard-wired first group of 20 steps whatever a step costs: 20 minutes of overshoot on a one-minute budget
    # with one-minute steps is not "then stops".)
    # The group is sized as (steps so far) / (elapsed time read so far): with steps costing between c_min and c_max it lasts at
    # most c_max / c_min seconds, twice that if the clock ticks (a reading is up to one tick behind: at the first tick seen the
    # measured rate may be double the true one), and never less than one step.  Before a ticking clock has moved at all the group
    # doubles, which adds at most the time already spent inside the first tick.
    # ... and a group is not sized beyond the budget that is left: a budget of 10 ms is not a licence to run for a second.  With the
    # rate known to the factor q * c_max / c_min, a group sized for min(1 s, remaining) overshoots by at most (q c_max / c_min - 1) of
    # that, or by one step.  (Until the first step has been timed nothing is known: the first group is one step.)
    c = elapsed / taken
    q = 2.0 if clock.resolution else 1.0
    allowance = 1.05 * max(c_max, (q * c_max / c_min - 1.0) * min(1.0, budget)) + c_max + 4 * clock.resolution + 8 * np.spacing(clock.t)
    if elapsed - budget > allowance:
        raise Violation(f"timed-overshoot:{cls}", f"budget {budget:.4g} s, ran {elapsed:.4g} s ({taken} steps of ~{c:.3g} s)")
    s, p = readouts(ch)
    if s.shape[0] != ch.chain_length or p.shape[0] != ch.chain_length:
        raise Violation(f"timed-lengths:{cls}", f"chain_length {ch.chain_length}, samples {s.shape}, probabilities {p.shape}")
    ctx.nontrivial(per_step > 1.0 and steps_budget > 20)
    ctx.event("clock=" + ("continuous" if not clock.resolution else f"ticks of {clock.resolution:g} s"))
    ctx.event("cls=" + cls)
    ctx.event("step>1s" if per_step > 1.0 else ("step>1ms" if per_step > 1e-3 else "step<=1ms"))
    ctx.event("unit=" + case["unit"])
    ctx.event("prior-samples=%d" % case.get("pre_steps", 0))


# ------------------------------------------------------------------ timed run of a tempering ladder (virtual parent-side clock)
@st.composite
def timed_pt_cases(draw):
    n = draw(st.integers(2, 3))
    d = draw(st.integers(1, 2))
    return {"seed": draw(st.integers(0, 2**31)), "d": d, "n_chains": n,
            "target": {"kind": "gauss", "d": d, "mean": [0.0] * d, "chol": [[1.0 if i == j else 0.0 for j in range(d)] for i in range(d)]},
            "start_u": [[draw(st.floats(-1, 1)) for _ in range(d)] for _ in range(n)],
            "cost_log": draw(st.one_of(st.floats(-3, 2), st.sampled_from([-0.5, 0.0, 0.5, 1.0]))),
            "swap_interval": draw(st.sampled_from([1, 2, 3, 10])),
            "cycles_log": draw(st.floats(-0.7, 2.3)), "unit": draw(st.sampled_from(["minutes", "hours", "mixed"])),
            "clock_res": draw(st.sampled_from([0.0, 0.0, 0.0, 0.015625])), "clock_epoch": draw(st.sampled_from([1000.0, 1.79e9])),
            # "every time budget": none at all, and budgets far below one cycle
            "zero_budget": draw(st.integers(0, 9)) == 0, "tiny_budget_log": draw(st.floats(-9, -2)) if draw(st.integers(0, 7)) == 0 else None}


def body_timed_pt(case, ctx):
    import inference.mcmc.parallel as par
    from inference.mcmc import ParallelTempering
    from vlib.targets import Target

    rngctl.reset(case["seed"])
    chains = []
    for k in range(case["n_chains"]):
        cfg = {"seed": case["seed"] + k, "cls": "gibbs", "d": case["d"], "target": case["target"], "start_u": case["start_u"][k],
               "width_log": [0.0] * case["d"], "T": 1.0 + 2.0 * k, "bounds": None, "display_progress": False, "limits": [], "limit_half": [1.0] * case["d"]}
        chains.append(S.build(cfg, target=Target(case["target"], record=False))[0])
    cost = 10.0 ** case["cost_log"]
    si = case["swap_interval"]
    cycle = cost * si
    budget = max(cycle * 10.0 ** case["cycles_log"], 0.05)
    if case.get("tiny_budget_log") is not None:
        budget = 10.0 ** case["tiny_budget_log"]
    if case.get("zero_budget"):
        budget = 0.0
    kw = {"minutes": budget / 60.0} if case["unit"] == "minutes" else ({"hours": budget / 3600.0} if case["unit"] == "hours" else
                                                                       {"minutes": budget / 120.0, "hours": budget / 7200.0})
    clock = VirtualClock(case.get("clock_res", 0.0), case.get("clock_epoch", 1000.0))
    with warnings.catch_warnings():
        warnings.simplefilter("ignore")
        pt = ParallelTempering(chains=chains)
    try:
        real_take = pt.take_steps
        taken = [0]

        def take_steps(n):          # the steps are taken by the worker processes; the parent's clock moves by their cost
            real_take(n)
            taken[0] += n
            clock.advance(n * cost)

        pt.take_steps = take_steps
        saved = par.time
        par.time = clock.time
        t0 = clock.t
        try:
            with warnings.catch_warnings(), np.errstate(all="ignore"):
                warnings.simplefilter("ignore")
                pt.run_for(swap_interval=si, **kw)
        except Livelock:
            raise Violation("timed-livelock:tempering", f"ParallelTempering.run_for read the clock 1000 times in a row without taking a step (step cost {cost:.3g} s, "
                                                        f"swap_interval {si}, budget {budget:.4g} s, {taken[0]} steps taken, {clock.t - t0:.4g} s elapsed)")
        finally:
            par.time = saved
        elapsed = clock.t - t0
        out = pt.return_chains()
        pt.shutdown()
    finally:
        pt.shutdown_evt.set()
        for p in pt.processes:
            p.join(timeout=2)
            if p.is_alive():
                p.terminate()
    if budget == 0.0:
        # nothing to use up: no chain moves
        lens = [int(c.chain_length) for c in out]
        if taken[0] or any(n != 1 for n in lens):
            raise Violation("timed-overshoot:tempering", f"zero budget, {taken[0]} steps were requested of every chain (swap_interval {si}), chain lengths {lens}")
        ctx.event("zero-budget")
        return
    if taken[0] < 1:
        raise Violation("timed-no-step:tempering", "run_for returned without taking a step")
    if elapsed < budget * (1 - 1e-9) - clock.resolution - 4 * np.spacing(clock.t):
        raise Violation("timed-early:tempering", f"run_for returned after {elapsed:.6g} s of a {budget:.6g} s budget ({taken[0]} steps of {cost:.3g} s, swap_interval {si})")
    # "and then stops": at most the progress group in flight (cycles worth about two seconds, or one cycle if slower) beyond the budget
    # (cycles faster than the clock's tick are grouped as if they took 10 ms: up to 200 of them per group)
    # (groups are sized for what is left of the budget: one cycle of overshoot - or, when cycles are faster than the clock's tick and
    # counted as 10 ms each, as much again as the 2-second group they are fitted into)
    # (in general: the cycle time is measured once, on the first cycle, by a clock that ticks: it can come out a tick short - or as zero,
    # then counted as 10 ms - and a group planned with it runs longer by that factor; seen at VERIF_SEED=9 with cycles of 2.7 ticks)
    measured_min = max(cycle - clock.resolution, 1e-2) if clock.resolution else cycle
    allowance = 1.05 * max(cycle, min(2.0, budget) * (cycle / measured_min - 1.0)) + cycle + 4 * clock.resolution + 8 * np.spacing(clock.t)
    if elapsed - budget > allowance:
        raise Violation("timed-overshoot:tempering", f"budget {budget:.4g} s, ran {elapsed:.4g} s ({taken[0]} steps of {cost:.3g} s, swap_interval {si})")
    lens = [int(c.chain_length) for c in out]
    if any(n != 1 + taken[0] for n in lens):
        raise Violation("timed-lengths:tempering", f"{taken[0]} steps were requested of every chain, chain lengths are {lens}")
    for c in out:
        s_, p_ = readouts(c)
        if s_.shape[0] != c.chain_length or p_.shape[0] != c.chain_length:
            raise Violation("timed-lengths:tempering", f"chain_length {c.chain_length}, samples {s_.shape}, probabilities {p_.shape}")
    ctx.nontrivial(cycle > 2.0 and budget / cycle > 3)
    ctx.event("cycle>2s" if cycle > 2.0 else "cycle<=2s")
    ctx.event("budget<1cycle" if budget < cycle else "budget>=1cycle")


def _pt_advance_cases():
    """a tempering ladder advanced by n steps adds n samples to every chain, for every swap interval (the C08 history check, whose
    step-count clauses are C15's: same generator, same body)"""
    from props import c08_tempering as c08

    return c08.advance_cases()


def _pt_advance_body(case, ctx):
    from props import c08_tempering as c08

    return c08.body_advance(case, ctx)


SUBCHECKS = [
    Sub("counts", lambda t: history_cases(), body_counts, quick=400, thorough=8000, shards_quick=16, shards_thorough=16, weight=5,
        rule="history with m=0, an m<100 and a non-multiple >=100 (ensemble: a 0-iteration advance among >=3 operations)"),
    Sub("counts-long", lambda t: long_cases(), body_long, quick=160, thorough=4000, shards_quick=8, shards_thorough=16, weight=60,
        rule="a single advance(m) with m >= 1000 that is a multiple of neither 100 nor 1000"),
    Sub("pool", lambda t: pool_cases(), body_pool, quick=64, thorough=600, shards_quick=8, shards_thorough=16, weight=100,
        rule=">= 2 chains of different classes in the pool"),
    Sub("timed-ensemble", lambda t: timed_cases(classes=("ensemble",)), body_timed, quick=60, thorough=1000, shards_quick=2, shards_thorough=8,
        rule="step cost > 1 virtual second with a budget worth > 20 steps"),
    Sub("timed", lambda t: timed_cases(), body_timed, quick=400, thorough=8000, shards_quick=16, shards_thorough=16,
        rule="step cost > 1 virtual second with a budget worth > 20 steps"),
    Sub("tempering-counts", lambda t: _pt_advance_cases(), _pt_advance_body, quick=48, thorough=1500, shards_quick=16, shards_thorough=16, weight=60,
        rule="N >= 2 and an advance whose n is not a multiple of swap_interval"),
    Sub("timed-tempering", lambda t: timed_pt_cases(), body_timed_pt, quick=48, thorough=1500, shards_quick=16, shards_thorough=16, weight=80,
        rule="swap cycle costing > 2 virtual seconds with a budget worth > 3 cycles"),
]
