"""C19 - density-estimator intervals, moments and normalisation are self-consistent.

Every oracle is computed from the estimator's OWN density / cumulative function by independent
numerical means (adaptive quadrature, dense grids, closed-form mixture moments for the KDE), so
estimation error never enters.  The same tolerances are applied at every location and scale - that
is the covariance claim.
"""
import warnings

import numpy as np
from hypothesis import strategies as st
from scipy.integrate import quad

from vlib import rngctl
from vlib.core import Sub, Violation, Inconclusive
from inference.pdf import GaussianKDE, UnimodalPdf

RULE = ("cases = sample family (normal, skew-normal, gamma k>=3, log-normal s<=0.5, t nu>=5, logistic) x size 300..20000 x location "
        "(0, +-1e2, +-1e4, +-1e6 standard deviations) x scale 1e-6..1e6 x interval fraction 0.05..0.95 x estimator (GaussianKDE, "
        "UnimodalPdf); non-trivial = |location| >= 100 sd or scale outside [1e-2, 1e2], or a skewed family")
ASSUMPTIONS = ["tolerances fixed from the accuracy delivered at scale 1, location 0 with a 10-20x margin: interval mass 5e-4, end-density "
               "ratio 5e-3, normalisation 2e-3, mode density 1e-3, mean/sd 2e-3 sd, shape moments 5e-3 (KDE) / 2e-2 (unimodal) absolute",
               "moments are compared only when the density carries < 1e-4 of its variance-weighted mass outside the estimator's own integration range"]
TOL = {"mass": 5e-4, "ratio": 5e-3, "norm": 2e-3, "mode": 1e-3, "loc": 2e-3, "var": 4e-3, "shape": 5e-3}


@st.composite
def cases(draw, est=None, max_n=20000):
    # ("edge" families - added after the third hunt round: samples with a sharp lower edge (half-normal, exponential / gamma k < 3) and
    # broader log-normals (s up to 0.9) are skewed, moderately heavy-tailed samples too; the first version stopped at gamma k >= 3, s <= 0.5)
    fam = draw(st.sampled_from(["normal", "skewnorm", "gamma", "lognormal", "t", "logistic", "halfnormal", "gamma-low", "lognormal-wide"]))
    return {"seed": draw(st.integers(0, 2**31)), "family": fam, "estimator": est or draw(st.sampled_from(["kde", "unimodal"])),
            "n": draw(st.sampled_from([300, 1000, 3000, max_n])) if est != "unimodal" else draw(st.sampled_from([300, 1000, 3000, 4000, 9000, 5000])),
            "shape": draw(st.floats(0, 1)), "mirror": draw(st.booleans()),   # mirror: the long tail on the left
            "loc_sd": draw(st.sampled_from([0.0, 0.0, 3.0, 1e2, -1e2, 1e4, -1e4, 1e6])),
            "log_scale": draw(st.sampled_from([0.0, 0.0, -6.0, 6.0, draw(st.floats(-6, 6))])),
            # "all fractions in (0,1)": also fractions holding less than one sample point, and nearly everything
            "fraction": draw(st.one_of(st.sampled_from([0.68268, 0.95449, 0.5]), st.floats(0.05, 0.95), st.sampled_from([1e-4, 1e-3, 3e-3, 0.01, 0.99, 0.997]))),
            # ... and fractions that hold only a handful of sample points (the fraction is then this count over the sample size)
            "few_points": draw(st.one_of(st.none(), st.none(), st.none(), st.integers(1, 40))),
            # the KDE's other bandwidth rule (cross-validation gives narrower kernels, hence steeper flanks at a sharp edge)
            "kde_cv": draw(st.sampled_from([False, False, False, True]))}


def fraction_of(case):
    return case["fraction"] if case.get("few_points") is None else (case["few_points"] + 0.5) / case["n"]


def make_sample(case):
    g = rngctl.rng(case["seed"], 11)
    n, fam, u = case["n"], case["family"], case["shape"]
    if fam == "normal":
        z = g.normal(size=n)
    elif fam == "skewnorm":
        a = 1 + 5 * u
        d = a / np.sqrt(1 + a * a)
        z = d * np.abs(g.normal(size=n)) + np.sqrt(1 - d * d) * g.normal(size=n)
    elif fam == "gamma":
        z = g.gamma(3 + 10 * u, size=n)
    elif fam == "lognormal":
        z = np.exp(g.normal(0, 0.1 + 0.4 * u, size=n))
    elif fam == "halfnormal":
        z = np.abs(g.normal(size=n))
    elif fam == "gamma-low":
        z = g.gamma(1 + 2 * u, size=n)
    elif fam == "lognormal-wide":
        z = np.exp(g.normal(0, 0.5 + 0.4 * u, size=n))
    elif fam == "t":
        z = g.standard_t(5 + 20 * u, size=n)
    else:
        z = g.logistic(size=n)
    z = (z - z.mean()) / z.std()
    if case.get("mirror"):
        z = -z
    scale = 10.0 ** case["log_scale"]
    return (z + case["loc_sd"]) * scale, scale


def fit(case, sample):
    with warnings.catch_warnings():
        warnings.simplefilter("ignore")
        with np.errstate(all="ignore"):
            if case["estimator"] == "kde":
                return GaussianKDE(sample, cross_validation=True) if (case.get("kde_cv") and case["n"] <= 3000) else GaussianKDE(sample)
            return UnimodalPdf(sample)


def loc_class(case):
    a = abs(case["loc_sd"])
    loc = "shift<100sd" if a < 100 else ("shift>=100sd" if a < 1e4 else "shift>=1e4sd")
    s = case["log_scale"]
    sc = "scale~1" if -2 <= s <= 2 else ("scale<1e-2" if s < -2 else "scale>1e2")
    return f"{loc}:{sc}"


def nontrivial(case):
    return abs(case["loc_sd"]) >= 100 or not (-2 <= case["log_scale"] <= 2) or case["family"] in ("skewnorm", "gamma", "lognormal", "halfnormal", "gamma-low", "lognormal-wide")


def pdf_of(est):
    def f(x):
        with np.errstate(all="ignore"):
            return float(np.atleast_1d(est(np.atleast_1d(float(x))))[0])
    return f


_GL_X, _GL_W = np.polynomial.legendre.leggauss(12)


def panel_edges(est, sample, sd, centre, lo, hi):
    """panels fine enough for the estimate's structure: width <= h/2 for the KDE (bumps of width h), graded for the
    smooth unimodal model"""
    if isinstance(est, GaussianKDE):
        m = int(min(max((hi - lo) / (0.5 * float(est.h)), 50), 6000))
        return np.linspace(lo, hi, m + 1)
    inner = centre + sd * np.linspace(-8, 8, 161)
    out_hi = centre + sd * np.geomspace(8, max((hi - centre) / sd, 9), 40)
    out_lo = centre - sd * np.geomspace(8, max((centre - lo) / sd, 9), 40)
    e = np.unique(np.concatenate([out_lo, inner, out_hi]))
    return e[(e >= lo) & (e <= hi)] if (e.min() < lo or e.max() > hi) else e


def gl_integral(est, edges, weight=None, a=None, b=None):
    """composite 12-point Gauss-Legendre of est(x)*weight(x) over the panels, optionally clipped to [a, b]"""
    e = np.asarray(edges, dtype=float)
    if a is not None or b is not None:
        a = e[0] if a is None else a
        b = e[-1] if b is None else b
        inside = e[(e > a) & (e < b)]
        e = np.concatenate([[a], inside, [b]])
    mid, half = 0.5 * (e[1:] + e[:-1]), 0.5 * (e[1:] - e[:-1])
    x = (mid[:, None] + half[:, None] * _GL_X[None, :]).ravel()
    with np.errstate(all="ignore"):
        p = np.asarray(est(x), dtype=float)
    if weight is not None:
        p = p * weight(x)
    return float(np.sum(p.reshape(mid.size, -1) * _GL_W[None, :] * half[:, None]))


def support(est, sample, sd):
    """range that certainly contains all but a negligible part of the estimated density"""
    if isinstance(est, GaussianKDE):
        return sample.min() - 10 * float(est.h), sample.max() + 10 * float(est.h)
    return sample.min() - 300 * sd, sample.max() + 300 * sd


def dense_grid(est, lo, hi, m=4001):
    x = np.linspace(lo, hi, m)
    with np.errstate(all="ignore"):
        p = np.asarray(est(x), dtype=float)
    return x, p


def body_core(case, ctx):
    sample, scale = make_sample(case)
    est = fit(case, sample.copy())
    kind = case["estimator"]
    lc = loc_class(case)
    sd = float(np.std(sample))
    centre = float(np.median(sample))
    f = pdf_of(est)
    lo, hi = support(est, sample, sd)
    edges = panel_edges(est, sample, sd, centre, lo, hi)
    # ---- normalisation
    total = gl_integral(est, edges)
    ctx.ratio(f"norm:{kind}", abs(total - 1), TOL["norm"])
    if not np.isfinite(total) or abs(total - 1) > TOL["norm"]:
        raise Violation(f"normalisation:{kind}", f"{case['family']} n={case['n']} [{lc}]: integral of the estimated density = {total!r}")
    # ---- cdf is the integral of the pdf
    g = rngctl.rng(case["seed"], 12)
    q = np.quantile(sample, g.uniform(0.01, 0.99, size=4))
    # ... and in the tails: inside the widest gaps between the outermost sample points, and beyond the sample on both sides
    srt = np.sort(sample)
    tails = []
    for part in (srt[:12], srt[-12:]):
        gaps = np.diff(part)
        for j in np.argsort(gaps)[-2:]:
            tails.append(part[j] + g.uniform(0.2, 0.8) * gaps[j])
    width = float(est.h) if isinstance(est, GaussianKDE) else sd
    tails += [srt[0] - g.uniform(0.5, 3.0) * width, srt[-1] + g.uniform(0.5, 3.0) * width]
    # ... and far beyond the data on both sides (the cumulative function is defined everywhere)
    far = [srt[0] - 10.0 ** g.uniform(2, 6) * sd, srt[-1] + 10.0 ** g.uniform(2, 6) * sd]
    q = np.unique(np.concatenate([q, np.clip(tails, lo, hi), far]))
    in_gap = int(np.sum((q < srt[11]) | (q > srt[-12])))
    ctx.event(f"cdf-tail-points={in_gap}")
    with np.errstate(all="ignore"):
        cv = np.asarray(est.cdf(q.copy()), dtype=float)
    if cv.shape != q.shape:
        raise Violation(f"cdf-shape:{kind}", f"cdf of {q.shape} points has shape {cv.shape}")
    # the cumulative function is a function of the point: the order in which points are passed (and passing one alone) is immaterial
    perm = g.permutation(q.size)
    with np.errstate(all="ignore"):
        cv_p = np.asarray(est.cdf(q[perm].copy()), dtype=float)
        c_one = float(np.asarray(est.cdf(float(q[q.size // 2]))).ravel()[0])
    if cv_p.shape != cv.shape or np.max(np.abs(cv_p - cv[perm])) > TOL["mass"] or abs(c_one - cv[q.size // 2]) > TOL["mass"]:
        k = int(np.argmax(np.abs(cv_p - cv[perm]))) if cv_p.shape == cv.shape else 0
        raise Violation(f"cdf-order:{kind}", f"cdf evaluated on the same points in another order differs: cdf({q[perm][k]!r}) = {cv_p[k]!r} in a shuffled array, {cv[perm][k]!r} in an ascending one "
                                            f"(alone: cdf({q[q.size // 2]!r}) = {c_one!r} vs {cv[q.size // 2]!r})")
    for i in range(q.size - 1):
        want = gl_integral(est, edges, a=q[i], b=q[i + 1])
        got = cv[i + 1] - cv[i]
        ctx.ratio(f"cdf:{kind}", abs(got - want), TOL["mass"])
        if abs(got - want) > TOL["mass"]:
            raise Violation(f"cdf-integral:{kind}", f"cdf({q[i + 1]!r}) - cdf({q[i]!r}) = {got!r} but the integral of the pdf is {want!r}")
    below = gl_integral(est, edges, b=q[0])
    if abs(cv[0] - below) > TOL["norm"]:
        raise Violation(f"cdf-integral:{kind}", f"cdf({q[0]!r}) = {cv[0]!r} but the integral of the pdf below it is {below!r}")
    # ---- highest-density interval
    fr = fraction_of(case)
    with warnings.catch_warnings():
        warnings.simplefilter("ignore")
        with np.errstate(all="ignore"):
            a, b = est.interval(fr)
    a, b = float(a), float(b)
    if not (a < b):
        raise Violation(f"interval-order:{kind}", f"interval({fr}) = ({a!r}, {b!r})")
    mass = gl_integral(est, edges, a=a, b=b)
    # (to 2 % of a small fraction: half a thousandth is most of a fraction of one in a thousand)
    tol_mass = min(TOL["mass"], 0.02 * fr)
    ctx.ratio(f"interval-mass:{kind}", abs(mass - fr), tol_mass)
    if abs(mass - fr) > tol_mass:
        raise Violation(f"interval-mass:{kind}", f"{case['family']} n={case['n']} [{lc}]: interval({fr}) = ({a!r}, {b!r}) holds probability {mass!r} under the estimator's own density")
    with np.errstate(all="ignore"):
        cm = float(est.cdf(np.array([a, b]))[1] - est.cdf(np.array([a, b]))[0])
    if abs(cm - fr) > 2 * tol_mass + 1e-7:
        raise Violation(f"interval-mass:{kind}", f"interval({fr}) holds {cm!r} under the estimator's own cdf")
    pa, pb = f(a), f(b)
    d = 1e-3 * (b - a)
    monotone = f(a - d) < pa < f(a + d) and f(b - d) > pb > f(b + d)
    if monotone:
        r = pa / pb if pb > 0 else np.inf
        ctx.ratio(f"interval-ends:{kind}", abs(r - 1), TOL["ratio"])
        if abs(r - 1) > TOL["ratio"]:
            raise Violation(f"interval-ends:{kind}", f"interval({fr}) = ({a!r}, {b!r}): end densities {pa!r}, {pb!r} (ratio {r:.5f})")
    else:
        ctx.event("interval-end-not-monotone")
    # ---- mode is a point of maximal estimated density
    x, p = dense_grid(est, np.quantile(sample, 0.001), np.quantile(sample, 0.999), 20001)
    j = int(np.argmax(p))
    xl, xr = x[max(j - 1, 0)], x[min(j + 1, x.size - 1)]
    xf, pf = dense_grid(est, xl, xr, 2001)
    pmax = float(pf.max())
    pm = f(float(est.mode))
    ctx.ratio(f"mode:{kind}", max(1 - pm / pmax, 0), TOL["mode"])
    if not pm >= (1 - TOL["mode"]) * pmax:
        where = "argmax-inside-search-interval"
        if kind == "kde" and sample.size > 50:
            from inference.pdf.hdi import sample_hdi as _hdi

            s_lo, s_hi = _hdi(sample, 0.2)  # documented search interval of the KDE mode: the 20% sample HDI
            if not (s_lo <= xf[int(np.argmax(pf))] <= s_hi):
                where = "argmax-outside-20%-sample-hdi"
        raise Violation(f"mode:{kind}:{where}", f"{case['family']} n={case['n']} [{lc}]: density at the reported mode {est.mode!r} is {pm!r}, but {pmax!r} at {xf[int(np.argmax(pf))]!r} ({(1 - pm / pmax) * 100:.3f}% higher)")
    ctx.nontrivial(nontrivial(case))
    ctx.event(f"est={kind}")
    ctx.event("family=" + case["family"])
    if case["estimator"] == "kde" and case.get("kde_cv") and case["n"] <= 3000:
        ctx.event("kde bandwidth by cross-validation")
    ctx.event(lc)
    ctx.event("tail=" + ("left" if case.get("mirror") else "right") if case["family"] in ("skewnorm", "gamma", "lognormal", "halfnormal", "gamma-low", "lognormal-wide") else "symmetric-family")


def reference_moments(est, sample, sd, centre, rng_lo, rng_hi):
    """moments of the estimated density restricted to [rng_lo, rng_hi], by composite Gauss-Legendre about the centre"""
    edges = panel_edges(est, sample, sd, centre, rng_lo, rng_hi)
    m0 = gl_integral(est, edges)
    m1 = gl_integral(est, edges, weight=lambda x: (x - centre) / sd) / m0
    mu = centre + m1 * sd
    c = [gl_integral(est, edges, weight=lambda x, k=k: ((x - mu) / sd) ** k) / m0 for k in (2, 3, 4)]
    return mu, c[0] * sd * sd, c[1] / c[0] ** 1.5, c[2] / c[0] ** 2 - 3.0


def body_moments(case, ctx):
    sample, scale = make_sample(case)
    est = fit(case, sample.copy())
    kind = case["estimator"]
    lc = loc_class(case)
    sd = float(np.std(sample))
    centre = float(np.median(sample))
    with warnings.catch_warnings():
        warnings.simplefilter("ignore")
        with np.errstate(all="ignore"):
            mu, var, skw, kur = (float(v) for v in est.moments())
    lo, hi = support(est, sample, sd)
    if kind == "kde":
        own_lo, own_hi = float(est.lwr_limit), float(est.upr_limit)
        # exact moments of the Gaussian mixture
        h = float(est.h)
        xm = sample.mean()
        dev = (sample - xm) / sd
        m2, m3, m4 = np.mean(dev**2), np.mean(dev**3), np.mean(dev**4)
        hh = (h / sd) ** 2
        v_full = m2 + hh
        full = (xm, v_full * sd * sd, m3 / v_full**1.5, (m4 + 6 * m2 * hh + 3 * hh * hh) / v_full**2 - 3.0)
    else:
        s, fpar = float(est.MAP[1]), float(est.MAP[3])
        own_lo = float(est.mode) - 5 * max(np.exp(-fpar), 1.0) * s
        own_hi = float(est.mode) + 5 * max(np.exp(fpar), 1.0) * s
        full = reference_moments(est, sample, sd, centre, lo, hi)
    own = reference_moments(est, sample, sd, centre, own_lo, own_hi)
    # negligible probability outside the estimator's own range?  decided, not assumed
    shape_tol = TOL["shape"] if kind == "kde" else 4 * TOL["shape"]
    clipped = (abs(own[0] - full[0]) > 0.5 * TOL["loc"] * sd or abs(own[1] / full[1] - 1) > 0.5 * TOL["var"]
               or abs(own[2] - full[2]) > 0.5 * shape_tol or abs(own[3] - full[3]) > 0.5 * shape_tol)
    if clipped:
        ctx.event("tail_clipped:" + case["family"])
        raise Inconclusive("tail_clipped")
    e_mu = abs(mu - full[0]) / sd
    e_var = abs(var / full[1] - 1)
    e_sk, e_ku = abs(skw - full[2]), abs(kur - full[3])
    ctx.ratio(f"moments:{kind}", max(e_mu / TOL["loc"], e_var / TOL["var"], e_sk / shape_tol, e_ku / shape_tol), 1.0)
    if not np.all(np.isfinite([mu, var, skw, kur])) or e_mu > TOL["loc"] or e_var > TOL["var"] or e_sk > shape_tol or e_ku > shape_tol:
        raise Violation(f"moments:{kind}", f"{case['family']} n={case['n']} loc={case['loc_sd']}sd scale=1e{case['log_scale']:.2f}: moments() = "
                                                 f"({mu!r}, {var!r}, {skw:.4f}, {kur:.4f}) but the estimated density has ({full[0]!r}, {full[1]!r}, {full[2]:.4f}, {full[3]:.4f}); "
                                                 f"mean off by {e_mu:.3g} sd, variance ratio off by {e_var:.3g}")
    ctx.nontrivial(nontrivial(case))
    ctx.event(f"est={kind}")
    ctx.event(lc)
    ctx.event("tail=" + ("left" if case.get("mirror") else "right") if case["family"] in ("skewnorm", "gamma", "lognormal", "halfnormal", "gamma-low", "lognormal-wide") else "symmetric-family")


def body_covariance(case, ctx):
    """direct comparison of the fit to z and to a*z + b (KDE is deterministic, so this is sharp)"""
    base = dict(case)
    base["loc_sd"], base["log_scale"] = 0.0, 0.0
    s0, _ = make_sample(base)
    s1, scale = make_sample(case)
    kind = case["estimator"]
    lc = loc_class(case)
    e0, e1 = fit(base, s0.copy()), fit(case, s1.copy())
    b = case["loc_sd"] * scale
    tolx = 5e-3 if kind == "kde" else 2e-2   # in standard deviations (the two fits are separate optimiser runs)
    m0, m1 = float(e0.mode), float(e1.mode)
    # the location of a maximum is ill-conditioned (the density is flat there), so the mapped-back mode is judged by
    # the density it attains under the unshifted fit, to the same tolerance as the mode check itself
    f0 = pdf_of(e0)
    back = (m1 - b) / scale
    loss = 1 - f0(back) / f0(m0)
    ctx.ratio(f"covariance-mode:{kind}", max(loss, 0), 2 * TOL["mode"])
    if loss > 2 * TOL["mode"] or abs(back - m0) > 0.25:
        raise Violation(f"covariance-mode:{kind}", f"[{lc}] mode of the shifted/scaled fit maps back to {back!r} where the unshifted fit's density is {loss * 100:.3f}% below its value at its own mode {m0!r}")
    fr = fraction_of(case)
    with warnings.catch_warnings():
        warnings.simplefilter("ignore")
        with np.errstate(all="ignore"):
            i0, i1 = e0.interval(fr), e1.interval(fr)
    for k in (0, 1):
        if abs((float(i1[k]) - b) / scale - float(i0[k])) > 2 * tolx:
            raise Violation(f"covariance-interval:{kind}", f"interval({fr}) end {k}: {(float(i1[k]) - b) / scale!r} (mapped back) vs {float(i0[k])!r}")
    x = np.quantile(s0, [0.05, 0.3, 0.5, 0.8, 0.97])
    with np.errstate(all="ignore"):
        p0 = np.asarray(e0(x), dtype=float)
        p1 = np.asarray(e1(x * scale + b), dtype=float) * scale
    if np.max(np.abs(p1 - p0) / p0.max()) > (1e-3 if kind == "kde" else 3e-2):
        raise Violation(f"covariance-density:{kind}", f"density of the shifted/scaled fit differs by {np.max(np.abs(p1 - p0) / p0.max()):.3g} of the peak")
    ctx.nontrivial(nontrivial(case))
    ctx.event(f"est={kind}")
    ctx.event(lc)
    ctx.event("tail=" + ("left" if case.get("mirror") else "right") if case["family"] in ("skewnorm", "gamma", "lognormal", "halfnormal", "gamma-low", "lognormal-wide") else "symmetric-family")


SUBCHECKS = [
    Sub("core-kde", lambda t: cases("kde", 20000 if t == "thorough" else 6000), body_core, quick=128, thorough=3000, shards_quick=16,
        shards_thorough=16, weight=20, shrink_budget=(20, 90), rule="|location| >= 100 sd or scale outside [1e-2,1e2] or skewed family"),
    Sub("core-unimodal", lambda t: cases("unimodal"), body_core, quick=96, thorough=2000, shards_quick=16, shards_thorough=16, weight=60,
        rule="|location| >= 100 sd or scale outside [1e-2,1e2] or skewed family"),
    Sub("moments-kde", lambda t: cases("kde", 20000 if t == "thorough" else 6000), body_moments, quick=128, thorough=3000, shards_quick=16,
        shards_thorough=16, weight=20, shrink_budget=(20, 90), rule="|location| >= 100 sd or scale outside [1e-2,1e2] or skewed family"),
    Sub("moments-unimodal", lambda t: cases("unimodal"), body_moments, quick=96, thorough=2000, shards_quick=16, shards_thorough=16, weight=60,
        rule="|location| >= 100 sd or scale outside [1e-2,1e2] or skewed family"),
    Sub("covariance-kde", lambda t: cases("kde", 6000), body_covariance, quick=96, thorough=2000, shards_quick=16, shards_thorough=16, weight=30,
        rule="|location| >= 100 sd or scale outside [1e-2,1e2] or skewed family"),
    Sub("covariance-unimodal", lambda t: cases("unimodal"), body_covariance, quick=64, thorough=1500, shards_quick=16, shards_thorough=16, weight=90,
        rule="|location| >= 100 sd or scale outside [1e-2,1e2] or skewed family"),
]
