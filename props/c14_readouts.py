"""C14 - burn, thin and interval read-outs select exactly the documented samples.

The model is an append-only log validated independently while the chain is driven (each step adds rows that
the recording posterior saw evaluated during that step - or repeats the previous row - with the log-density
the harness computes for them); every read-out is then compared with slices of that log.
"""
import warnings
from collections import Counter
from fractions import Fraction

import numpy as np
from hypothesis import strategies as st

from vlib import rngctl  # noqa: F401
from vlib import samplers as S
from vlib.core import Sub, Violation, Inconclusive

RULE = ("histories of take_step / advance on every sampler class followed by read-outs with burn in 0..len+3, thin in 1..len+3, any "
        "parameter index, interval fractions in (0,1) and requested counts None | 1..2*len; non-trivial = burn > 0, thin > 1 and >= 2 "
        "rows retained, or one of the edge classes (0 or 1 rows retained)")
ASSUMPTIONS = ["get_interval's documented override: thin = max(n // samples, 1) when a count is requested",
               "the top fraction f of m rows leaves floor(m*(1 - f)) rows out; where m*(1 - f) is within 1e-9*m of a whole number either neighbouring count is accepted"]


@st.composite
def cases(draw):
    cfg = draw(S.sampler_configs(bounds="maybe"))
    ens = cfg["cls"] == "ensemble"
    ops = []
    for _ in range(draw(st.integers(1, 5))):
        if ens:
            ops.append({"op": "advance", "m": draw(st.integers(1, 5))})
        elif draw(st.booleans()):
            ops.append({"op": "step", "m": draw(st.integers(1, 4))})
        else:
            ops.append({"op": "advance", "m": draw(st.one_of(st.integers(0, 12), st.integers(20, 60)))})
    cfg["ops"] = ops
    reads = []
    for _ in range(draw(st.integers(1, 6))):
        reads.append({"burn_u": draw(st.floats(0, 1.1)), "thin_u": draw(st.one_of(st.sampled_from([0.0, 0.0]), st.floats(0, 1.1))),
                      "burn_edge": draw(st.sampled_from([None, None, 0, -1, -2, 1, 2, 3])),
                      "index": draw(st.integers(0, 3)), "interval": draw(st.one_of(st.sampled_from([0.95, 0.5, 0.9, 0.8]), st.floats(0.02, 0.98), st.sampled_from([1e-4, 1e-3, 0.999, 0.9999]))),
                      "samples_u": draw(st.one_of(st.none(), st.floats(0, 2))), "marginal": draw(st.sampled_from([False, False, True])),
                      "samples_type": draw(st.sampled_from([None, None, "uint8", "uint16", "int16", "uint64"]))})
    cfg["reads"] = reads
    # second phase on the same (by now already read-out) sampler: more steps, a tempering exchange of the last point, a save / load,
    # then the same read-outs again
    ops2 = []
    for _ in range(draw(st.integers(0, 4))):
        kind = draw(st.sampled_from(["advance", "step", "reload"] + ([] if ens else ["exchange", "exchange"])))
        if kind == "advance":
            ops2.append({"op": "advance", "m": draw(st.integers(1, 5))})
        elif kind == "step" and not ens:
            ops2.append({"op": "step", "m": draw(st.integers(1, 4))})
        elif kind == "exchange":
            ops2.append({"op": "exchange", "u": [draw(st.floats(-1.5, 1.5)) for _ in range(cfg["d"])]})
        elif kind == "reload":
            ops2.append({"op": "reload"})
    cfg["ops2"] = ops2
    cfg["reads2"] = draw(st.sampled_from(["same", "same", "burn0"])) if ops2 else None
    return cfg


def full(ch):
    with np.errstate(all="ignore"):
        return (np.array(ch.get_sample(burn=0), dtype=float, copy=True).reshape(-1, ch.n_parameters),
                np.array(ch.get_probabilities(burn=0), dtype=float, copy=True))


def key(row):
    return np.ascontiguousarray(row, dtype=float).tobytes()


def body(case, ctx):
    cfg = case
    cls = cfg["cls"]
    T = cfg["T"]
    d = cfg["d"]
    ch, tgt, info = S.build(cfg, record=True)
    nw = S.walkers(cfg)
    # ---- drive the chain, validating the full chain as an append-only log
    if cls == "ensemble":
        model_s, model_p = np.zeros((0, d)), np.zeros(0)
        prev_rows = {key(r) for r in info["positions"]}
    else:
        model_s, model_p = full(ch)
        prev_rows = {key(model_s[-1])}
    state = {"ch": ch, "s": model_s, "p": model_p, "prev": prev_rows}
    for phase, ops in (("first", cfg["ops"]), ("second", cfg.get("ops2") or [])):
        if phase == "second":
            if state["s"].shape[0] == 0:
                raise Inconclusive("nothing stored")
            read_outs(cfg, state["ch"], state["s"], state["p"], cfg["reads"], ctx)
            if not ops:
                break
        drive(cfg, state, ops, tgt, info, nw, ctx)
    else:
        reads2 = cfg["reads"] if cfg.get("reads2") != "burn0" else [dict(r, burn_u=0.0, burn_edge=None) for r in cfg["reads"]]
        read_outs(cfg, state["ch"], state["s"], state["p"], reads2, ctx)
        ctx.event("second-phase")
    ctx.event("cls=" + cls)


def drive(cfg, state, ops, tgt, info, nw, ctx):
    cls, T, d = cfg["cls"], cfg["T"], cfg["d"]
    ch, model_s, model_p, prev_rows = state["ch"], state["s"], state["p"], state["prev"]
    for op in ops:
        if op["op"] in ("exchange", "reload"):
            if model_s.shape[0] == 0:
                continue
            if op["op"] == "exchange":
                # exactly what the tempering worker does with a received position: the last entry is replaced
                c, sc = S.centre_scale(cfg)
                pos = c + np.array(op["u"]) * sc
                box = info.get("box")
                if box is not None:
                    pos = np.clip(pos, box[0], box[1])
                for i, kind in enumerate(cfg.get("limits", []) if cls in ("gibbs", "metropolis") else []):
                    kind = S.limit_kind(cfg, i)
                    if kind == "nonneg":
                        pos[i] = abs(pos[i])
                    elif kind in ("bounded", "both"):
                        lo, hi = S.support_interval(cfg, i)
                        pos[i] = min(max(pos[i], lo), hi)
                if cfg["target"]["kind"] == "cliff":
                    # keep installed points off (and on the low side of) the discontinuities: from a point on top of a 100-nat cliff
                    # whose coordinate cannot move down (non-negative parameter at an edge ~ 0) the retry loops of take_step never
                    # accept - the redraw-on-rejection behaviour recorded under C01, not a read-out matter
                    e = np.array(cfg["target"]["edges"])
                    near = np.abs(pos - e) < 1e-6 * (1 + np.abs(e))
                    pos = np.where(near, e + 1e-3, pos)
                ch.replace_last(pos.copy())
                ch.probs[-1] = tgt.logp(pos) * ch.inv_temp
                model_s, model_p = model_s.copy(), model_p.copy()
                model_s[-1], model_p[-1] = pos, tgt.logp(pos) / T
                ctx.event("exchange")
            else:
                import os
                import tempfile
                from props.c09_save_load import load as load_sampler
                fd, path = tempfile.mkstemp(suffix=".npz")
                os.close(fd)
                try:
                    ch.save(path)
                    ch = load_sampler(cfg, path, tgt)
                finally:
                    os.remove(path)
                ctx.event("reloaded")
            s, p = full(ch)
            if not (np.array_equal(s, model_s) and np.allclose(p, model_p, rtol=1e-12, atol=0)):
                raise Violation(f"log-rewritten:{cls}", f"{op}: the full chain read-out is not the log with its last entry exchanged / the saved log")
            model_p = p
            prev_rows = {key(r) for r in s[-nw:]}
            continue
        n_new = op["m"] * (nw if cls == "ensemble" else 1)
        mark = len(tgt.trace)
        with warnings.catch_warnings():
            warnings.simplefilter("ignore")
            with np.errstate(all="ignore"):
                if op["op"] == "advance":
                    ch.advance(op["m"])
                else:
                    for _ in range(op["m"]):
                        ch.take_step()
        if n_new == 0 and cls == "ensemble" and ch.sample is None:
            continue
        s, p = full(ch)
        if s.shape[0] != model_s.shape[0] + n_new or p.shape[0] != s.shape[0]:
            raise Violation(f"log-growth:{cls}", f"{op}: full chain went from {model_s.shape[0]} to {s.shape[0]} rows, expected +{n_new}")
        if not (np.array_equal(s[: model_s.shape[0]], model_s) and np.array_equal(p[: model_p.shape[0]], model_p)):
            raise Violation(f"log-rewritten:{cls}", f"{op}: earlier rows of the chain changed")
        evaluated = {key(t) for t, _ in tgt.trace[mark:]} | prev_rows
        for r, pr in zip(s[model_s.shape[0]:], p[model_p.shape[0]:]):
            if key(r) not in evaluated:
                raise Violation(f"log-foreign-row:{cls}", f"{op}: stored row {r} was never evaluated by the posterior during the operation")
            want = tgt.logp(r) / T
            if abs(pr - want) > 1e-12 * (abs(want) + 1):
                raise Violation(f"log-prob:{cls}", f"{op}: stored log-probability {pr!r} vs {want!r} for row {r}")
        model_s, model_p = s, p
        prev_rows = {key(r) for r in (s[-nw:] if s.shape[0] else info["positions"])}
    state.update(ch=ch, s=model_s, p=model_p, prev=prev_rows)


def read_outs(cfg, ch, model_s, model_p, reads, ctx):
    cls, d = cfg["cls"], cfg["d"]
    n = model_s.shape[0]
    # ---- read-outs
    retained_classes = set()
    for rd in reads:
        burn = int(rd["burn_u"] * n)
        if rd["burn_edge"] is not None:
            burn = max(n - 1 + rd["burn_edge"], 0) if rd["burn_edge"] <= 0 else n - 1 + rd["burn_edge"]
        thin = max(int(rd["thin_u"] * n) + (1 if rd["thin_u"] > 0 else 0), 1)
        idx = rd["index"] % d
        exp_s, exp_p = model_s[burn::thin], model_p[burn::thin]
        k = exp_s.shape[0]
        retained_classes.add("0" if k == 0 else ("1" if k == 1 else "many"))
        with warnings.catch_warnings():
            warnings.simplefilter("ignore")
            with np.errstate(all="ignore"):
                gs = np.asarray(ch.get_sample(burn=burn, thin=thin))
                gp = np.asarray(ch.get_probabilities(burn=burn, thin=thin))
                gx = np.asarray(ch.get_parameter(idx, burn=burn, thin=thin))
        tag = f"{cls}:retained={'0' if k == 0 else ('1' if k == 1 else 'many')}"
        if gp.shape != (k,) or not np.array_equal(gp, exp_p):
            raise Violation(f"get_probabilities:{tag}", f"burn={burn}, thin={thin}, n={n}: shape {gp.shape}, expected ({k},) = entries burn::thin")
        if k > 0 and (gs.shape != (k, d) or not np.array_equal(gs, exp_s)):
            raise Violation(f"get_sample:{tag}", f"burn={burn}, thin={thin}, n={n}: shape {gs.shape}, expected ({k}, {d}) = rows burn::thin")
        if k == 0 and gs.shape[0] != 0:
            raise Violation(f"get_sample:{tag}", f"burn={burn}, thin={thin}, n={n}: shape {gs.shape}, expected 0 rows")
        if k == 0:
            # nothing retained: the highest-density read-out still answers (with no rows), as a two-dimensional array
            with warnings.catch_warnings(), np.errstate(all="ignore"):
                warnings.simplefilter("ignore")
                iv_s, iv_p = ch.get_interval(interval=rd["interval"], burn=burn, thin=thin)
            iv_s, iv_p = np.asarray(iv_s), np.asarray(iv_p)
            if iv_s.ndim != 2 or iv_s.shape[0] != 0 or iv_p.shape != (0,):
                raise Violation(f"get_interval-shape:{cls}:empty", f"burn={burn}, thin={thin}, n={n}: get_interval returned shapes {iv_s.shape}, {iv_p.shape} for an empty selection")
        if gx.shape != (k,) or not np.array_equal(gx, exp_s[:, idx]):
            raise Violation(f"get_parameter:{tag}", f"burn={burn}, thin={thin}, n={n}, index={idx}: shape {gx.shape}, expected ({k},)")
        # what is returned is the caller's to post-process (centre it, sort it): the chain keeps its entries - the next read-outs, in
        # this loop and in the second phase, are judged against the same model
        if rd.get("postprocess", True):
            for arr in (gs, gp, gx):
                if isinstance(arr, np.ndarray) and arr.flags.writeable and arr.size:
                    with np.errstate(all="ignore"):
                        arr -= 1.0 + np.abs(arr).max()
            with np.errstate(all="ignore"), warnings.catch_warnings():
                warnings.simplefilter("ignore")
                again = np.asarray(ch.get_probabilities(burn=burn, thin=thin))
                again_s = np.asarray(ch.get_sample(burn=burn, thin=thin))
            if not np.array_equal(again, exp_p) or (k > 0 and not np.array_equal(again_s, exp_s)):
                raise Violation(f"readout-is-a-view:{cls}", f"burn={burn}, thin={thin}: after the caller changed the arrays it got from get_sample / get_probabilities / get_parameter in place, "
                                                            f"the same read-outs return other values: the stored chain was rewritten")
        # marginal estimates are built from exactly those values
        if rd["marginal"] and k >= 3 and np.unique(exp_s[:, idx]).size >= 3:
            with warnings.catch_warnings():
                warnings.simplefilter("ignore")
                with np.errstate(all="ignore"):
                    try:
                        est = ch.get_marginal(idx, burn=burn, thin=thin)
                    except (OverflowError, ValueError, FloatingPointError):
                        est = None
            if est is not None and not np.array_equal(np.sort(np.asarray(est.sample, dtype=float).ravel()), np.sort(exp_s[:, idx])):
                raise Violation(f"get_marginal:{cls}", f"burn={burn}, thin={thin}: the marginal estimate was not built from rows burn::thin of parameter {idx}")
            ctx.event("marginal-checked")
        # highest-density read-out
        if k >= 1:
            samples = None if rd["samples_u"] is None else max(int(rd["samples_u"] * n), 1)
            n_burned = model_p[burn:].shape[0]
            eff_thin = thin if samples is None else max(n_burned // samples, 1)
            base_s, base_p = model_s[burn::eff_thin], model_p[burn::eff_thin]
            m = base_p.shape[0]
            # rows outside the top fraction f of m rows: m*(1 - f), rounded down - where f is the fraction the caller wrote (0.9), of which the
            # float is the nearest double: a product within m * 1e-13 below a whole number IS that whole number (1000 rows, 0.9: 100 rows
            # outside, although 1000 * (1 - 0.9) = 99.99999999999997 in floats and in exact arithmetic on the double).  I had first called
            # that case "ambiguous by one row, either reading legitimate" - which excused get_interval(0.9) returning all of 10 rows.
            # Between m * 1e-13 and m * 1e-9 below a whole number either reading is accepted (no fraction a caller writes lands there).
            exact = m * (1 - Fraction(rd["interval"]))
            up = -((-exact.numerator) // exact.denominator)         # ceil
            below = up - exact
            if below <= Fraction(m, 10**13):
                cut = cut_alt = int(up)
            elif below <= Fraction(m, 10**9):
                cut, cut_alt = int(exact), int(up)
            else:
                cut = cut_alt = int(exact)
            top_p = np.sort(base_p)[cut:]
            top_alt = np.sort(base_p)[cut_alt:]
            with warnings.catch_warnings():
                warnings.simplefilter("ignore")
                with np.errstate(all="ignore"):
                    rngctl.reset(cfg["seed"] + 17)
                    s_arg = samples
                    if samples is not None and rd.get("samples_type") and samples <= np.iinfo(rd["samples_type"]).max:
                        s_arg = np.dtype(rd["samples_type"]).type(samples)      # (a count read from an array)
                    iv_s, iv_p = ch.get_interval(interval=rd["interval"], burn=burn, thin=thin, samples=s_arg)
            iv_s, iv_p = np.asarray(iv_s), np.asarray(iv_p)
            itag = f"{cls}:{'count' if samples is not None else 'all'}"
            if iv_s.ndim != 2 or iv_p.ndim != 1 or iv_s.shape[0] != iv_p.shape[0] or (iv_s.shape[0] and iv_s.shape[1] != d):
                raise Violation(f"get_interval-shape:{itag}", f"interval={rd['interval']}, burn={burn}, thin={thin}, samples={samples}: sample array {iv_s.shape}, probabilities {iv_p.shape}")
            pairs = Counter((key(r), float(q)) for r, q in zip(base_s, base_p))
            got = Counter((key(r), float(q)) for r, q in zip(iv_s, iv_p))
            if any(got[c] > pairs[c] for c in got):
                raise Violation(f"get_interval-pairs:{itag}", f"interval={rd['interval']}, burn={burn}, thin={thin}, samples={samples}: a returned (row, log-probability) pair is not a pair of the burned and thinned chain")
            if iv_p.size and top_p.size and iv_p.min() < top_p.min():
                raise Violation(f"get_interval-fraction:{itag}", f"interval={rd['interval']}: returned log-probability {iv_p.min()!r} lies below the top fraction (cut at {top_p.min()!r}, {cut} of {m} trimmed)")
            if samples is None:
                if not (np.array_equal(np.sort(iv_p), top_p) or np.array_equal(np.sort(iv_p), top_alt)):
                    raise Violation(f"get_interval-all:{itag}", f"interval={rd['interval']}, burn={burn}, thin={thin}: {iv_p.size} rows returned, the top fraction has {top_p.size}")
            else:
                if iv_p.size > samples:
                    raise Violation(f"get_interval-count:{itag}", f"samples={samples}: {iv_p.size} rows returned")
                if iv_p.size < min(samples, top_alt.size):
                    raise Violation(f"get_interval-count:{itag}", f"samples={samples}: only {iv_p.size} rows returned although the top fraction has {top_p.size}")
            ctx.event("interval:" + ("count" if samples is not None else "all"))
        ctx.nontrivial((burn > 0 and thin > 1 and k >= 2) or k <= 1)
    for c in retained_classes:
        ctx.event("retained=" + c)


SUBCHECKS = [
    Sub("readouts", lambda t: cases(), body, quick=1200, thorough=20000, shards_quick=16, shards_thorough=16, weight=5,
        rule="burn > 0, thin > 1 and >= 2 rows retained; or 0 / 1 rows retained"),
]
