"""C09 - a saved sampler reloads to an equivalent sampler that can continue.

Model-based histories over every sampler class and configuration axis: step / advance so that saves land
before any step, before and after the first adaptation event (Gibbs check interval 100, HMC 15, PCA direction
update 100) and after many; save + load; compare every public read-out; transplant the generator states
(found by walking the object graph) from the original to the reloaded object and require the continuations
to be bit-identical - which observes tuning state behaviourally.
"""
import os
import shutil
import tempfile
import warnings

import numpy as np
from hypothesis import strategies as st

from vlib import rngctl  # noqa: F401
from vlib import samplers as S, graphwalk
from vlib.targets import Target
from vlib.core import Sub, Violation

RULE = ("histories of step / advance(m) / save-and-reload / advance-both over Gibbs, Metropolis, PCA, HMC (default / scalar / vector / "
        "matrix mass, with and without gradient) and ensemble samplers, with bounds, Gibbs limits and T != 1; non-trivial = a save before "
        "the first adaptation event and one after it, each followed by >= 20 further steps of both objects")
ASSUMPTIONS = ["'same random-generator state' = every numpy Generator reachable from the original (attribute paths rng, params[i].rng) copied to the same path of the reloaded object",
               "files are written to a per-case temporary directory that is removed afterwards"]
ADAPT = {"gibbs": 100, "metropolis": 100, "pca": 100, "hmc": 15, "ensemble": 1}


@st.composite
def cases(draw, focus=None):
    cfg = draw(S.sampler_configs(bounds="maybe"))
    ens = cfg["cls"] == "ensemble"
    ops = []
    n_ops = draw(st.integers(2, 6))
    for i in range(n_ops):
        k = draw(st.sampled_from(["advance", "save", "both", "both"])) if i else draw(st.sampled_from(["advance", "advance", "save"]))
        if k == "advance":
            # (480 / 820: beyond the third / fourth re-estimation of PcaChain's directions, whose interval grows 100, 150, 225, 337.5 ...)
            m = draw(st.sampled_from([0, 1, 2, 3, 5])) if ens else draw(st.sampled_from([0, 5, 14, 16, 99, 101, 125, 140, 480, 820] if i == 0 else [0, 1, 5, 14, 16, 40, 99, 101, 125]))
            ops.append({"op": k, "m": m})
        elif k == "both":
            m = draw(st.sampled_from([0, 2, 3, 5])) if ens else draw(st.sampled_from([0, 1, 20, 25, 40, 101, 350]))
            ops.append({"op": k, "m": m})
        else:
            ops.append({"op": "save", "plots": draw(st.integers(0, 9)) == 0})
    if not any(o["op"] == "save" for o in ops):
        ops.insert(draw(st.integers(0, len(ops))), {"op": "save", "plots": False})
    if not ens and draw(st.integers(0, 6)) == 0:
        # a long chain saved late and continued for long: tuning schedules that grow (check intervals x1.75, direction updates x1.5)
        # reach their third and fourth stage only after hundreds of steps, and their next event only hundreds of steps after the reload
        ops = [{"op": "advance", "m": draw(st.sampled_from([480, 560, 700]))}, {"op": "save", "plots": False}, {"op": "both", "m": draw(st.sampled_from([340, 420]))}]
    cfg["ops"] = ops
    # a public tuning attribute the user may have changed before saving (the Hamiltonian and ensemble samplers have it)
    cfg["set_max_attempts"] = draw(st.sampled_from([None, None, 7, 50]))
    # the numeric types of what the user hands over: a model evaluated in single precision returns float32 log-probabilities /
    # gradients, a temperature or mass taken from a numpy array is a numpy scalar, widths / start may be float32 arrays, a matrix
    # mass may be a strided view of a larger matrix.  The file holds plain numbers: the reloaded sampler must compute as the original does
    if focus == "forms-late":
        # the class of cases in which a numeric form can matter at all: saved after the first adaptation event (the tuning state has been
        # recomputed from what the user handed over), then continued through further adaptation events
        if ens:
            cfg["ops"] = [{"op": "advance", "m": draw(st.sampled_from([2, 3, 5]))}, {"op": "save", "plots": False}, {"op": "both", "m": draw(st.sampled_from([3, 5]))}]
        else:
            first = draw(st.sampled_from([40, 101, 125, 140, 240]))
            cfg["ops"] = [{"op": "advance", "m": first}, {"op": "save", "plots": False}, {"op": "both", "m": draw(st.sampled_from([40, 101, 240]))}]
    if focus == "forms-late" or draw(st.integers(0, 1)) == 0:
        cfg["prec"] = {"T": draw(st.sampled_from(["python", "numpy"])), "widths": draw(st.sampled_from([None, "float32"])),
                       "start": draw(st.sampled_from([None, "float32"])), "mass": draw(st.sampled_from([None, "view"]))}
        cfg["target"] = dict(cfg["target"])
        cfg["target"]["out_dtype"] = draw(st.sampled_from([None, "float32"]))
        cfg["target"]["grad_dtype"] = draw(st.sampled_from([None, "float32"]))
    return cfg


def readouts(ch, cfg):
    out = {}
    if hasattr(ch, "max_attempts"):
        out["max_attempts"] = int(ch.max_attempts)
    with warnings.catch_warnings():
        warnings.simplefilter("ignore")
        with np.errstate(all="ignore"):
            out["chain_length"] = int(ch.chain_length)
            if cfg["cls"] == "ensemble" and ch.sample is None:
                out["walkers"] = np.array(ch.walker_positions, copy=True)
                out["walker_probs"] = np.array(ch.walker_probs, copy=True)
                return out
            n = len(np.asarray(ch.get_probabilities(burn=0)))
            for burn, thin in ((0, 1), (1, 1), (n // 2, 2), (max(n - 1, 0), 3)):
                out[f"sample[{burn}::{thin}]"] = np.array(ch.get_sample(burn=burn, thin=thin), copy=True)
                out[f"probs[{burn}::{thin}]"] = np.array(ch.get_probabilities(burn=burn, thin=thin), copy=True)
                out[f"param0[{burn}::{thin}]"] = np.array(ch.get_parameter(0, burn=burn, thin=thin), copy=True)
            out["mode"] = np.array(ch.mode(), copy=True)
            # tuning state and settings the object reports as attributes (values, whatever numeric type holds them)
            for name in ("inv_temp", "temperature", "alpha", "steps"):
                if hasattr(ch, name) and np.ndim(getattr(ch, name)) == 0:
                    out["attr " + name] = float(getattr(ch, name))
            if hasattr(ch, "ES"):
                out["attr ES.epsilon"] = float(ch.ES.epsilon)
            if hasattr(ch, "params"):
                out["attr params.sigma"] = np.array([float(q.sigma) for q in ch.params])
            b = getattr(ch, "bounds", None)
            if b is not None:
                out["bounds.lower"], out["bounds.upper"] = np.array(b.lower, copy=True), np.array(b.upper, copy=True)
    return out


def compare(a, b, cls, when):
    if sorted(a) != sorted(b):
        raise Violation(f"readout-set:{cls}", f"{when}: read-outs available on the original {sorted(a)} vs on the reloaded object {sorted(b)}")
    for k in a:
        x, y = np.asarray(a[k]), np.asarray(b[k])
        if x.shape != y.shape or not np.array_equal(x, y):
            kind = k.split("[")[0]
            raise Violation(f"readout-differs:{cls}:{kind}", f"{when}: {k} differs between the original and the reloaded sampler (shapes {x.shape} / {y.shape})")


def load(cfg, path, tgt):
    from inference.mcmc import GibbsChain, PcaChain, HamiltonianChain, EnsembleSampler
    from inference.mcmc.gibbs import MetropolisChain

    cls = cfg["cls"]
    C = {"gibbs": GibbsChain, "metropolis": MetropolisChain, "pca": PcaChain, "hmc": HamiltonianChain, "ensemble": EnsembleSampler}[cls]
    with warnings.catch_warnings():
        warnings.simplefilter("ignore")
        if cls == "hmc":
            return C.load(path, posterior=tgt, grad=(S.GradRecorder(tgt) if cfg["hmc"]["grad"] else None))
        return C.load(path, posterior=tgt)


def exercise_calls(ch, cfg, label):
    """read-out and plotting calls that are offered on a sampler; returns the names that worked"""
    import matplotlib
    matplotlib.use("Agg")
    import matplotlib.pyplot as plt

    ok = []
    n = int(ch.chain_length)
    calls = []
    if cfg["cls"] != "ensemble" or ch.sample is not None:
        calls += [("get_interval", lambda: ch.get_interval(interval=0.9, burn=0)),
                  ("get_marginal", lambda: ch.get_marginal(0, burn=0))]
        if cfg["cls"] != "ensemble":
            calls += [("estimate_burn_in", lambda: ch.estimate_burn_in()),
                      ("plot_diagnostics", lambda: ch.plot_diagnostics(show=False)),
                      ("trace_plot", lambda: ch.trace_plot(show=False)),
                      ("matrix_plot", lambda: ch.matrix_plot(show=False))]
    for name, f in calls:
        try:
            with warnings.catch_warnings():
                warnings.simplefilter("ignore")
                with np.errstate(all="ignore"):
                    f()
            ok.append(name)
        except Exception as e:  # noqa: BLE001 - recorded, compared between original and copy
            ok.append(f"{name}!{type(e).__name__}")
        finally:
            plt.close("all")
    return ok


def body(case, ctx):
    cfg = case
    cls = cfg["cls"]
    ch, tgt, info = S.build(cfg, record=False)
    if cfg.get("set_max_attempts") and hasattr(ch, "max_attempts"):
        # (the Hamiltonian sampler raises when the limit is hit, so it gets a larger non-default value than the ensemble sampler)
        ch.max_attempts = cfg["set_max_attempts"] + (250 if cls == "hmc" else 0)
    copy_ch = None
    tmp = tempfile.mkdtemp(prefix="c09-", dir=os.environ.get("TMPDIR", "/tmp"))
    nw = S.walkers(cfg)
    steps = 0
    saves = []          # (steps at save, steps of both objects after it)
    try:
        for k, op in enumerate(cfg["ops"]):
            when = f"op {k} {op} at {steps} steps"
            with warnings.catch_warnings():
                warnings.simplefilter("ignore")
                with np.errstate(all="ignore"):
                    if op["op"] == "advance":
                        ch.advance(op["m"])
                        steps += op["m"]
                        copy_ch = None      # the copy is stale now
                    elif op["op"] == "save":
                        path = os.path.join(tmp, f"chain{k}.npz")
                        ch.save(path)
                        copy_ch = load(cfg, path, Target(cfg["target"], record=False))
                        ref = readouts(ch, cfg)
                        try:
                            got = readouts(copy_ch, cfg)
                        except AttributeError as e:
                            raise Violation(f"reloaded-missing-attribute:{cls}", f"{when}: a read-out that works on the original fails on the reloaded sampler: {e}")
                        compare(ref, got, cls, when + " (immediately after load)")
                        if op["plots"]:
                            a, b = exercise_calls(ch, cfg, "original"), exercise_calls(copy_ch, cfg, "copy")
                            if a != b:
                                raise Violation(f"calls-differ:{cls}", f"{when}: calls on the original gave {a}, on the reloaded sampler {b}")
                            ctx.event("plots-exercised")
                        saves.append([steps, 0])
                    elif op["op"] == "both" and copy_ch is not None:
                        found, missing = graphwalk.transplant(ch, copy_ch)
                        if missing or not found:
                            raise Violation(f"generator-missing:{cls}", f"{when}: generators {missing or 'none found'} of the original have no counterpart in the reloaded sampler")
                        ch.advance(op["m"])
                        copy_ch.advance(op["m"])
                        steps += op["m"]
                        compare(readouts(ch, cfg), readouts(copy_ch, cfg), cls, when + f" (continuation by {op['m']})")
                        saves[-1][1] += op["m"]
                        ctx.event("continued")
                    elif op["op"] == "both":
                        ch.advance(op["m"])
                        steps += op["m"]
        adapt = ADAPT[cls]
        early = any(s < adapt and cont >= (20 if cls != "ensemble" else 2) for s, cont in saves)
        late = any(s >= adapt and cont >= (20 if cls != "ensemble" else 2) for s, cont in saves)
        ctx.nontrivial(early or late)
        if early:
            ctx.event("save-before-first-adaptation+continued")
        if late:
            ctx.event("save-after-first-adaptation+continued")
        ctx.event("cls=" + cls)
        if cfg.get("bounds"):
            ctx.event("bounded")
        if cfg["T"] != 1.0:
            ctx.event("T!=1")
        if cls == "hmc":
            ctx.event("mass=" + cfg["hmc"]["mass"])
        if cfg.get("prec"):
            ctx.event("numeric forms: " + ",".join(sorted(k + "=" + str(v) for k, v in {**cfg["prec"], "post": cfg["target"].get("out_dtype"),
                                                                                       "grad": cfg["target"].get("grad_dtype")}.items() if v not in (None, "python"))) or "numeric forms: none")
    finally:
        shutil.rmtree(tmp, ignore_errors=True)


SUBCHECKS = [
    Sub("histories", lambda t: cases(), body, quick=640, thorough=8000, shards_quick=16, shards_thorough=16, weight=10,
        rule="a save before or after the first adaptation event followed by >= 20 further steps of both objects"),
    Sub("forms-late", lambda t: cases(focus="forms-late"), body, quick=160, thorough=2400, shards_quick=8, shards_thorough=16, weight=10,
        rule="numeric forms of the user's inputs drawn for every case; saved after the first adaptation event and continued for >= 20 steps"),
]
