"""C13 - sample_hdi returns the shortest interval holding the requested fraction.

Oracle: brute force over all ordered pairs of sample values (O(n^2), n <= 300), plus the
metamorphic relations of the statement (column-wise = 1-D, permutation, positive affine
maps, caller's array untouched, documented ValueErrors).
"""
import warnings
from fractions import Fraction

import numpy as np
from hypothesis import strategies as st

from vlib import rngctl  # noqa: F401  (must precede inference)
from vlib.core import Sub, Violation
from inference.pdf.hdi import sample_hdi

RULE = ("cases = (sample, fraction, dtype, container) drawn by Hypothesis; non-trivial = ties present, or "
        "n*fraction within 1e-9 of an integer, or 2-D input; distinct by sha1 of the canonical case")
ASSUMPTIONS = ["integer inputs that the float64 result array can hold exactly (below 2**53, or multiples of 2**12 over the whole int64 / "
               "uint64 range) are judged exactly; for other 64-bit integers the reported pair must be the float64 rounding of the end points "
               "of an exactly-shortest window (brute sub-check only)",
               "NaN-free samples (ordering of NaN is undefined)"]

DTYPES = ["float64", "float32", "float16", "int64", "int32", "uint8", "uint32", "uint64", "int8", "int16", "bool"]


@st.composite
def column(draw, n, dtype):
    kind = draw(st.sampled_from(["ties", "smooth", "outlier", "huge", "grid"] + (["grid", "grid"] if dtype in ("int64", "uint64") else [])))
    if dtype == "bool":
        return [draw(st.booleans()) for _ in range(n)]
    if dtype.startswith("int") or dtype.startswith("uint"):
        lim = {"int32": 2**20, "int64": 2**40, "uint8": 255, "uint32": 2**31, "int8": 127, "int16": 32767, "uint64": 2**40}[dtype]
        low = 0 if dtype.startswith("uint") else -lim
        if dtype in ("int64", "uint64") and kind == "grid":
            # 64-bit integers that a float64 cannot hold (nanosecond time stamps, identifiers): judged by `rounded_check`
            base = draw(st.sampled_from([2**53, 2**60, 2**62, 1_790_000_000_000_000_000] + ([2**63, 2**64 - 2**21] if dtype == "uint64" else [-(2**62)])))
            # (spread over a few spacings of the float64 numbers at that magnitude, where rounding would reorder the window widths)
            spread = max(1, 2 ** (abs(base).bit_length() - 53)) * draw(st.sampled_from([3, 10, 30]))
            return [base + draw(st.integers(0, spread)) for _ in range(n)]
        if dtype in ("int64", "uint64") and kind in ("huge", "outlier"):
            # the whole range of the type, in numbers a float64 holds exactly (multiples of 4096)
            lo_k, hi_k = (-(2**51), 2**51 - 1) if dtype == "int64" else (0, 2**52 - 1)
            if kind == "huge":
                return [draw(st.integers(lo_k, hi_k)) * 4096 for _ in range(n)]
            vals = [draw(st.integers(0, 1000)) for _ in range(n)]
            for _ in range(draw(st.integers(1, 3))):
                vals[draw(st.integers(0, n - 1))] = draw(st.sampled_from([lo_k, hi_k, hi_k // 2])) * 4096
            return vals
        if kind in ("ties", "grid"):
            pool = draw(st.lists(st.integers(max(low, -50), 50), min_size=1, max_size=6))
            return [draw(st.sampled_from(pool)) for _ in range(n)]
        return [draw(st.integers(low, lim)) for _ in range(n)]
    w = 16 if dtype == "float16" else 32
    if kind == "ties":
        pool = draw(st.lists(st.floats(-1e3, 1e3, allow_nan=False, width=w), min_size=1, max_size=6))
        return [draw(st.sampled_from(pool)) for _ in range(n)]
    if kind == "grid":
        return [float(draw(st.integers(-20, 20))) * 0.5 for _ in range(n)]
    if kind == "smooth":
        return [draw(st.floats(-10, 10, allow_nan=False, width=w)) for _ in range(n)]
    if kind == "outlier":
        vals = [draw(st.floats(-1, 1, allow_nan=False, width=w)) for _ in range(n)]
        for _ in range(draw(st.integers(1, 3))):
            vals[draw(st.integers(0, n - 1))] = draw(st.sampled_from([1e4, -6e4] if dtype == "float16" else [1e6, -1e6, 1e30, -1e30]))
        return vals
    # values near the ends of the type's range (their differences overflow in the type itself)
    top = {"float16": 60000.0, "float32": 3e38}.get(dtype, 1e300)
    return [draw(st.sampled_from([top, -top, 0.0, 1.0, -1.0, top / 2, -top / 3, top / 4])) for _ in range(n)]


@st.composite
def fraction_for(draw, n):
    mode = draw(st.sampled_from(["free", "k_over_n", "near", "extreme"]))
    if mode == "free":
        f = draw(st.floats(0.001, 0.999))
    elif mode == "extreme":
        f = draw(st.sampled_from([1e-12, 1e-3, 0.5, 1 - 1e-3, 1 - 1e-12, float(np.nextafter(1.0, 0.0)),
                                  float(np.nextafter(0.0, 1.0))]))
    else:
        k = draw(st.integers(1, max(1, n - 1)))
        f = k / n
        if mode == "near":
            steps = draw(st.integers(-3, 3))
            for _ in range(abs(steps)):
                f = float(np.nextafter(f, 2.0 if steps > 0 else -1.0))
    if not (0.0 < f < 1.0):
        f = 0.5
    return f


@st.composite
def cases(draw, max_n=300):
    dtype = draw(st.sampled_from(DTYPES))
    n = draw(st.one_of(st.integers(2, 12), st.integers(2, 60), st.integers(2, max_n)))
    ncol = draw(st.sampled_from([0, 0, 1, 2, 3, 5]))  # 0 = one-dimensional input
    cols = [draw(column(n, dtype)) for _ in range(max(ncol, 1))]
    container = draw(st.sampled_from(["array", "array", "list", "tuple", "view", "fortran"]))
    return {
        "seed": draw(st.integers(0, 2**31)),
        "dtype": dtype, "ncol": ncol, "cols": cols, "container": container,
        "fraction": draw(fraction_for(n)),
        "perm_seed": draw(st.integers(0, 2**31)), "swapped": draw(st.integers(0, 2)) == 0,
        "a_pow": draw(st.integers(-3, 6)), "b": draw(st.integers(-1000, 1000)),
        "ga": draw(st.floats(1e-3, 1e3)), "gb": draw(st.floats(-1e3, 1e3)),
    }


def build(case):
    cols = [np.array(c, dtype=case["dtype"]) for c in case["cols"]]
    if case.get("swapped") and cols[0].dtype.itemsize > 1:
        # the same numbers in the other byte order (a big-endian file read on a little-endian machine)
        cols = [c.astype(c.dtype.newbyteorder()) for c in cols]
    if case["ncol"] == 0:
        arr = cols[0]
    else:
        arr = np.stack(cols, axis=1)
    return arr


def as_container(arr, kind):
    if kind == "list":
        return arr.tolist()
    if kind == "tuple":
        return tuple(tuple(r) if isinstance(r, list) else r for r in arr.tolist())
    if kind == "view":
        big = np.repeat(arr, 2, axis=0)
        return big[::2]
    if kind == "fortran" and arr.ndim == 2:
        return np.asfortranarray(arr)
    return arr.copy()


def call(sample, f):
    with warnings.catch_warnings():
        warnings.simplefilter("ignore")
        return sample_hdi(sample, f)


def brute_check(col, lo, hi, f, label):
    """col: 1-D ndarray in the tested dtype; (lo, hi) reported."""
    n = col.size
    s = np.sort(col)
    s64 = s.astype(np.float64)
    if not (np.any(s64 == lo) and np.any(s64 == hi)):
        raise Violation("endpoints", f"{label}: end points ({lo},{hi}) are not sample values")
    if lo > hi:
        raise Violation("endpoints", f"{label}: lower {lo} above upper {hi}")
    inside = int(np.sum((s64 >= lo) & (s64 <= hi)))
    if Fraction(inside) < Fraction(f) * n:
        raise Violation("coverage", f"{label}: {inside} of {n} points inside, fraction {f!r} needs {float(Fraction(f)*n)}")
    # every interval [s_i, s_j] holding at least `inside` points must not be shorter
    left = np.searchsorted(s, s, side="left")
    right = np.searchsorted(s, s, side="right")
    cnt = right[None, :] - left[:, None]  # points in [s_i, s_j]
    # widths of integer samples are exact integers (Python integers for the 64-bit types, whose differences do not fit in them;
    # int64 otherwise); widths of floating-point samples are differences of the same numbers in double precision - never in a
    # narrower type of the sample's own, where they overflow or round (an earlier version of this oracle did that, as the
    # implementation did)
    if s.dtype.kind in "iub":
        sw = s.astype(object) if s.dtype.itemsize == 8 else s.astype(np.int64)
    else:
        sw = s.astype(np.float64)
    with np.errstate(over="ignore", invalid="ignore"):
        wid = sw[None, :] - sw[:, None]
        ilo = int(np.argmax(s64 == lo))
        ihi = int(np.argmax(s64 == hi))
        w_rep = sw[ihi] - sw[ilo]
    ok = (cnt >= inside) & (np.arange(n)[None, :] >= np.arange(n)[:, None])
    if np.any(ok & (wid < w_rep)):
        i, j = np.argwhere(ok & (wid < w_rep))[0]
        raise Violation("shortest", f"{label}: reported [{lo},{hi}] width {w_rep} holds {inside}; "
                                    f"[{s[i]},{s[j]}] width {wid[i, j]} holds {cnt[i, j]}")


def rounded_check(col, lo, hi, f, label):
    """64-bit integer samples whose values a float64 cannot hold: the result array is float64, so the reported end points can only be
    the roundings of two sample values.  Accepted: the rounding of the end points of any window of sorted sample values that holds c
    points and is exactly (integer arithmetic) as short as the shortest window with c points, for some count c from the smallest that
    holds the requested fraction up to one more."""
    import math
    e = sorted(int(v) for v in col)
    n = len(e)
    c_min = max(1, math.ceil(Fraction(f) * n))
    c_max = min(n, c_min + 1)      # (one point more than needed: the window convention floor(f n) + 1, whichever way f n rounds)
    ok = set()
    for c in range(c_min, max(c_min, c_max) + 1):
        if c > n:
            break
        widths = [e[i + c - 1] - e[i] for i in range(n - c + 1)]
        w = min(widths)
        ok |= {(float(e[i]), float(e[i + c - 1])) for i in range(n - c + 1) if widths[i] == w}
    if (float(lo), float(hi)) not in ok:
        raise Violation("shortest-rounded", f"{label}: reported ({lo!r}, {hi!r}) for a {col.dtype} sample near {e[0]} is not the float64 rounding of any exactly-shortest window holding "
                                            f"{c_min}..{c_max} of the {n} points (acceptable: {sorted(ok)[:3]})")


def body_brute(case, ctx):
    arr = build(case)
    f = case["fraction"]
    n = arr.shape[0]
    given = as_container(arr, case["container"])
    pristine = np.array(given, copy=True) if isinstance(given, np.ndarray) else None
    flags = (given.flags.c_contiguous, given.flags.f_contiguous, given.flags.writeable) \
        if isinstance(given, np.ndarray) else None
    res = call(given, f)
    # caller's array untouched
    if pristine is not None:
        if given.shape != pristine.shape or given.dtype != pristine.dtype or not np.array_equal(given, pristine) \
                or flags != (given.flags.c_contiguous, given.flags.f_contiguous, given.flags.writeable):
            raise Violation("input-modified", f"input array changed: shape {pristine.shape}->{given.shape}")
    ncol = max(case["ncol"], 1)
    res = np.asarray(res, dtype=float)
    expect_shape = (2,) if ncol == 1 else (2, ncol)
    if res.shape != expect_shape:
        raise Violation("shape", f"result shape {res.shape}, expected {expect_shape}")
    res2 = res.reshape(2, ncol)
    ties = False
    # the data as the implementation sees them: a list / tuple is converted with numpy.array (float32 values become float64,
    # so the window subtraction is done in that dtype, not in the dtype the case was generated in)
    eff = given if isinstance(given, np.ndarray) else np.array(given)
    for c in range(ncol):
        col = eff if eff.ndim == 1 else eff[:, c]
        if col.dtype.kind in "iu" and col.dtype.itemsize == 8 and any(int(float(int(v))) != int(v) for v in col):
            rounded_check(col, res2[0, c], res2[1, c], f, f"col{c}")
            ctx.event("64-bit integers a float64 cannot hold")
        else:
            brute_check(col, res2[0, c], res2[1, c], f, f"col{c}")
        ties = ties or (np.unique(col).size < col.size)
        # column-wise = 1-D call
        one = np.asarray(call(col.copy(), f), dtype=float)
        if not np.array_equal(one, res2[:, c]):
            raise Violation("columnwise", f"col{c}: 2-D gives {res2[:, c]}, 1-D call gives {one}")
    fn = f * n
    near_int = abs(fn - round(fn)) < 1e-9
    ctx.nontrivial(ties or near_int or case["ncol"] >= 1)
    ctx.event("ties" if ties else "no-ties")
    ctx.event("near-integer-fn" if near_int else "generic-fn")
    ctx.event(f"ncol={case['ncol']}")
    ctx.event(f"dtype={case['dtype']}")
    ctx.event(f"container={case['container']}")
    ctx.event("n<=12" if n <= 12 else ("n<=60" if n <= 60 else "n>60"))


def body_meta(case, ctx):
    arr = build(case)
    f = case["fraction"]
    n = arr.shape[0]
    base = np.asarray(call(arr.copy(), f), dtype=float)
    prng = np.random.default_rng(case["perm_seed"])
    # permutation of rows (whole rows for 2-D keeps columns independent anyway; also permute per column)
    perm = prng.permutation(n)
    got = np.asarray(call(arr[perm].copy(), f), dtype=float)
    if not np.array_equal(got, base):
        raise Violation("permutation", f"{base} vs {got} after reordering the sample")
    if arr.ndim == 2:
        shuffled = np.stack([arr[prng.permutation(n), c] for c in range(arr.shape[1])], axis=1)
        got = np.asarray(call(shuffled, f), dtype=float)
        if not np.array_equal(got, base):
            raise Violation("permutation", f"{base} vs {got} after per-column reordering")
    # exact affine map on integer-valued data: a = 2**k, b integer
    intval = np.all(np.abs(arr.astype(np.float64)) < 2**20) and np.all(arr.astype(np.float64) == np.round(arr.astype(np.float64)))
    if intval:
        a = 2.0 ** case["a_pow"]
        b = float(case["b"])
        mapped = arr.astype(np.float64) * a + b
        got = np.asarray(call(mapped, f), dtype=float)
        base64 = np.asarray(call(arr.astype(np.float64), f), dtype=float)
        if not np.array_equal(got, base64 * a + b):
            raise Violation("affine-exact", f"a={a}, b={b}: {got} vs mapped {base64 * a + b}")
        ctx.event("affine-exact")
    # generic positive affine map: width maps to a*width within rounding
    a64 = arr.astype(np.float64)
    if np.all(np.abs(a64) < 1e100):
        ga, gb = case["ga"], case["gb"]
        mapped = a64 * ga + gb
        got = np.asarray(call(mapped, f), dtype=float).reshape(2, -1)
        b64 = np.asarray(call(a64, f), dtype=float).reshape(2, -1)
        w_got = got[1] - got[0]
        w_exp = ga * (b64[1] - b64[0])
        # the mapped sample itself carries the rounding of a*x (at the size of a*x, which may be far larger than a*x + b) and of
        # the sum: the widths agree to that, not to the size of the mapped values alone
        prod = np.abs(a64 * ga)
        scale = (np.max(prod, axis=0) if mapped.ndim == 2 else np.max(prod)) + abs(gb)
        tol = 8 * np.finfo(float).eps * (np.abs(scale) + np.abs(w_exp))
        err = np.max(np.abs(w_got - w_exp) - tol)
        ctx.ratio("affine-width", np.max(np.abs(w_got - w_exp) / np.maximum(tol, 1e-300)), 1.0)
        if err > 0:
            raise Violation("affine-width", f"a={ga}, b={gb}: width {w_got} vs {w_exp}")
        ctx.event("affine-generic")
    ties = any(np.unique(np.asarray(c)).size < len(c) for c in case["cols"])
    fn = f * n
    ctx.nontrivial(ties or abs(fn - round(fn)) < 1e-9 or case["ncol"] >= 1)


@st.composite
def bad_cases(draw):
    kind = draw(st.sampled_from(["fraction", "short", "ndim", "type"]))
    case = {"seed": 0, "kind": kind}
    if kind == "fraction":
        case["fraction"] = draw(st.one_of(st.sampled_from([0.0, 1.0, -0.5, 1.5, float("inf"), -1e-300, 2]),
                                          st.floats(1.0, 1e6), st.floats(-1e6, 0.0)))
        case["n"] = draw(st.integers(2, 10))
        case["ndim"] = draw(st.sampled_from([1, 2]))
    elif kind == "short":
        case["n"] = draw(st.integers(0, 1))
        case["ndim"] = draw(st.sampled_from([1, 2]))
        case["fraction"] = draw(st.floats(0.01, 0.99))
    elif kind == "ndim":
        case["ndim"] = draw(st.sampled_from([0, 3, 4]))
        case["n"] = draw(st.integers(2, 5))
        case["fraction"] = draw(st.floats(0.01, 0.99))
    else:
        case["which"] = draw(st.sampled_from(["none", "float", "str", "set"]))
        case["fraction"] = 0.5
    return case


def body_errors(case, ctx):
    kind = case["kind"]
    if kind == "type":
        obj = {"none": None, "float": 3.0, "set": {1.0, 2.0, 3.0}}.get(case["which"], None)
        if case["which"] == "str":
            ctx.event("skipped-str")
            ctx.nontrivial(True)
            return
        sample = obj
    elif case["ndim"] == 0:
        sample = np.array(1.0)
    else:
        shape = [case["n"]] + [2] * (case["ndim"] - 1)
        sample = np.arange(int(np.prod(shape)), dtype=float).reshape(shape)
    try:
        call(sample, case["fraction"])
    except ValueError:
        ctx.event("ValueError:" + kind)
        ctx.nontrivial(True)
        return
    except Exception as e:
        raise Violation(f"errors:{kind}", f"raised {type(e).__name__} instead of the documented ValueError: {e}")
    raise Violation(f"errors:{kind}", f"no ValueError for invalid input {case}")


SUBCHECKS = [
    Sub("brute", lambda tier: cases(300 if tier == "thorough" else 120), body_brute, quick=6000, thorough=300000,
        shards_quick=8, shards_thorough=16,
        rule="ties present or n*f within 1e-9 of an integer or 2-D input"),
    Sub("meta", lambda tier: cases(300 if tier == "thorough" else 120), body_meta, quick=4000, thorough=200000,
        shards_quick=6, shards_thorough=16,
        rule="ties present or n*f within 1e-9 of an integer or 2-D input"),
    Sub("errors", lambda tier: bad_cases(), body_errors, quick=300, thorough=3000, shards_quick=1, shards_thorough=1,
        rule="every invalid-input class (fraction outside (0,1), fewer than 2 rows, ndim not in {1,2}, non-sequence)"),
]
