"""C06 - priors are normalised, sample from themselves, and compose by index.

Oracles: mpmath / scipy.stats reference densities and CDFs per class; mpmath numerical derivative
of the reference; quad normalisation; exact-null KS tests of i.i.d. draws (seeded through rngctl);
a reference joint prior that routes every value / gradient entry / bound / draw to the owner of
each index; exact sums and negations for Posterior; a recording prior for generate_initial_guesses.
"""
import numpy as np
import mpmath as mp
from hypothesis import strategies as st
from scipy import stats
from scipy.integrate import quad

from vlib import rngctl  # noqa: F401
from vlib.core import Sub, Violation
from inference.priors import GaussianPrior, ExponentialPrior, UniformPrior, JointPrior
from inference.posterior import Posterior

mp.mp.dps = 40
RULE = ("cases = prior class / joint layout (ordered partition of range(n), n<=8, random classes, random component "
        "order, descending and interleaved indices), hyper-parameters over 1e-6..1e6, theta inside / on the edge of / "
        "outside the support; non-trivial = >= 2 components with non-ascending or interleaved indices (joint), "
        "hyper-parameter farther than 10x from 1 (single)")
ASSUMPTIONS = ["'effectively -inf' outside the support means <= -1e30", "KS tests fire at p < 1e-9 / (tests per run)"]
P_FLOOR = 1e-9 / 5000.0


# ------------------------------------------------------------------ reference laws
def ref_logpdf(kind, par, t):
    t = mp.mpf(t)
    if kind == "gauss":
        m, s = mp.mpf(par[0]), mp.mpf(par[1])
        return -((t - m) / s) ** 2 / 2 - mp.log(s) - mp.log(2 * mp.pi) / 2
    if kind == "exp":
        b = mp.mpf(par[0])
        return None if t < 0 else -t / b - mp.log(b)
    lo, hi = mp.mpf(par[0]), mp.mpf(par[1])
    return None if (t < lo or t > hi) else -mp.log(hi - lo)


def ref_dlogpdf(kind, par, t):
    """textbook derivative of the reference log-density, cross-checked by 40-digit numerical differentiation"""
    t = mp.mpf(t)
    if kind == "gauss":
        m, s = mp.mpf(par[0]), mp.mpf(par[1])
        d = (m - t) / s**2
        scale = (abs(m) + abs(t)) / s**2
    else:
        d = -1 / mp.mpf(par[0])
        scale = abs(d)
    num = mp.diff(lambda u: ref_logpdf(kind, par, u), t, h=mp.mpf(par[-1]) * mp.mpf("1e-12"))
    if abs(num - d) > mp.mpf(10) ** -15 * scale + mp.mpf(10) ** -20 / mp.mpf(par[-1]):
        raise AssertionError(f"oracle self-check failed: analytic {d} vs numeric {num}")
    return d


def ref_cdf(kind, par):
    if kind == "gauss":
        return stats.norm(loc=par[0], scale=par[1]).cdf
    if kind == "exp":
        return stats.expon(scale=par[0]).cdf
    return stats.uniform(loc=par[0], scale=par[1] - par[0]).cdf


def ref_bounds(kind, par):
    if kind == "gauss":
        return (None, None)
    if kind == "exp":
        return (0.0, None)
    return (par[0], par[1])


def grad_floor(kind, par, t):
    """rounding of (mean - theta) before the division by sigma**2: a few ulps at the scale of the operands (and a few spacings of the
    sub-normal numbers, where a result of 1e-313 carries ten digits and one of 2e-323 none - also of a sub-normal INTERMEDIATE
    (mean - theta) / sigma, whose rounding by up to a spacing is then divided by sigma once more: theta = 9.4e-318, sigma = 4.2e-5 gave a
    gradient of -5.2765e-309 with eleven digits in the thorough tier)"""
    if kind == "gauss":
        return 4 * np.finfo(float).eps * (abs(par[0]) + abs(t)) / par[1] / par[1] + 1e-322 * max(1.0, 1.0 / par[1])
    return 0.0


def same_bound(a, b):
    return (a is None and b is None) or (a is not None and b is not None and float(a) == float(b))


def make(kind, pars, idx):
    given = list(idx)
    if kind == "gauss":
        obj = GaussianPrior(mean=[p[0] for p in pars], sigma=[p[1] for p in pars], variable_indices=given)
    elif kind == "exp":
        obj = ExponentialPrior(beta=[p[0] for p in pars], variable_indices=given)
    else:
        obj = UniformPrior(lower=[p[0] for p in pars], upper=[p[1] for p in pars], variable_indices=given)
    # the index list handed over is the caller's work list: it is refilled here (reversed and shifted) once the prior is built
    given[:] = [i + 1 for i in reversed(given)]
    return obj


# ------------------------------------------------------------------ strategies
@st.composite
def params(draw, kind):
    if kind == "gauss":
        return [draw(st.floats(-1e6, 1e6)), 10 ** draw(st.floats(-6, 6))]
    if kind == "exp":
        return [10 ** draw(st.floats(-6, 6))]
    lo = draw(st.floats(-1e6, 1e6))
    return [lo, lo + max(10 ** draw(st.floats(-6, 6)), abs(lo) * 1e-9 + 1e-300)]


@st.composite
def theta_for(draw, kind, par):
    where = draw(st.sampled_from(["inside", "inside", "edge", "outside"]))
    if kind == "gauss":
        return par[0] + par[1] * draw(st.floats(-40, 40)), "inside"
    if kind == "exp":
        if where == "inside":
            return par[0] * 10 ** draw(st.floats(-6, 3)), where
        if where == "edge":
            return 0.0, where
        return -par[0] * 10 ** draw(st.floats(-9, 3)), where
    lo, hi = par
    if where == "inside":
        t = lo + (hi - lo) * draw(st.floats(0.001, 0.999))
        return min(max(t, lo), hi), where
    if where == "edge":
        return draw(st.sampled_from([lo, hi])), where
    w = (hi - lo) * 10 ** draw(st.floats(-9, 3))
    t = draw(st.sampled_from([lo - w, hi + w]))
    if lo <= t <= hi:
        t = float(np.nextafter(lo, -np.inf))
    return t, where


@st.composite
def layouts(draw, max_n=8, max_comp=5):
    n = draw(st.integers(1, max_n))
    perm = draw(st.permutations(list(range(n))))
    ncomp = draw(st.integers(1, min(max_comp, n)))
    cuts = sorted(draw(st.lists(st.integers(1, n - 1), min_size=ncomp - 1, max_size=ncomp - 1, unique=True))) if n > 1 else []
    groups = [list(perm[a:b]) for a, b in zip([0] + cuts, cuts + [n])]
    comps = []
    for g in groups:
        kind = draw(st.sampled_from(["gauss", "exp", "uniform"]))
        pars = [draw(params(kind)) for _ in g]
        comps.append({"kind": kind, "idx": g, "pars": pars})
    theta = [None] * n
    where = [None] * n
    for c in comps:
        for i, p in zip(c["idx"], c["pars"]):
            theta[i], where[i] = draw(theta_for(c["kind"], p))
    return {"seed": draw(st.integers(0, 2**31)), "n": n, "comps": comps, "theta": theta, "where": where}


def interleaved(comps):
    """>= 2 components and some component's indices are not an ascending contiguous block in listing order."""
    if len(comps) < 2:
        return False
    flat = [i for c in comps for i in c["idx"]]
    return flat != sorted(flat)


# ------------------------------------------------------------------ bodies
def gradient_survives_caller(prior, th, g, label):
    """a caller accumulates a total gradient in place in the array it was handed (g = prior.gradient(x); g += ...): the prior's next
    answer is still its own gradient"""
    with np.errstate(all="ignore"):
        g = np.array(prior.gradient(th), dtype=float, copy=True)
        mine = prior.gradient(th)
        if isinstance(mine, np.ndarray) and mine.flags.writeable:
            mine += 7.0
        again = np.asarray(prior.gradient(th), dtype=float)
    if not np.array_equal(again, g, equal_nan=True):   # (g: the caller-independent copy taken before)
        raise Violation(f"{label}:gradient-buffer", f"after the caller added to the returned gradient array in place, gradient() at the same point returns "
                                                   f"{again.tolist()} instead of {np.asarray(g).tolist()}")


def check_joint_like(prior, comps, theta, where, n, label, ctx):
    owner = {}
    for c in comps:
        for i, p in zip(c["idx"], c["pars"]):
            owner[i] = (c["kind"], p)
    th = np.array(theta, dtype=float)
    terms = [ref_logpdf(owner[i][0], owner[i][1], th[i]) for i in range(n)]
    with np.errstate(all="ignore"):
        val = float(prior(th))
    if any(t is None for t in terms):
        if not val <= -1e30:
            raise Violation(f"{label}:outside-support", f"theta {theta} outside the support but log-prior {val!r}")
    else:
        ref = mp.fsum(terms)
        scale = float(mp.fsum([abs(t) for t in terms])) + n
        err = abs(float(mp.mpf(val) - ref))
        ctx.ratio(f"{label}:value", err, 1e-12 * scale)
        if not np.isfinite(val) or err > 1e-12 * scale:
            raise Violation(f"{label}:value", f"log-prior {val!r} vs reference {mp.nstr(ref, 20)} for layout "
                                              f"{[(c['kind'], c['idx']) for c in comps]}")
        # gradient (inside the support and not on an edge)
        if all(w == "inside" for w in where):
            g = np.asarray(prior.gradient(th), dtype=float)
            if g.shape != (n,):
                raise Violation(f"{label}:gradient-shape", f"gradient shape {g.shape}, expected {(n,)}")
            for i in range(n):
                kind, par = owner[i]
                if kind == "uniform":
                    rg, tol = mp.mpf(0), 0.0
                else:
                    rg = ref_dlogpdf(kind, par, th[i])
                    tol = 1e-11 * abs(float(rg)) + grad_floor(kind, par, th[i])
                if abs(float(mp.mpf(g[i]) - rg)) > tol:
                    raise Violation(f"{label}:gradient", f"entry {i} (owner {kind}{par}) is {g[i]!r}, reference {mp.nstr(rg, 17)}")
            cg = np.asarray(prior.cost_gradient(th), dtype=float)
            if not np.array_equal(cg, -g):
                raise Violation(f"{label}:cost-gradient", "cost_gradient is not the exact negative of gradient")
            gradient_survives_caller(prior, th, g, label)
        with np.errstate(all="ignore"):
            c = float(prior.cost(th))
        if c != -val:
            raise Violation(f"{label}:cost", f"cost {c!r} vs -value {-val!r}")
    # bounds
    b = list(prior.bounds)
    if len(b) != n:
        raise Violation(f"{label}:bounds", f"{len(b)} bounds for {n} variables")
    for i in range(n):
        rb = ref_bounds(*owner[i])
        if not (same_bound(b[i][0], rb[0]) and same_bound(b[i][1], rb[1])):
            raise Violation(f"{label}:bounds", f"bounds[{i}] = {b[i]}, owner {owner[i]} has support {rb}")
    return owner


def body_joint(case, ctx):
    comps, n = case["comps"], case["n"]
    objs = [make(c["kind"], c["pars"], c["idx"]) for c in comps]
    prior = JointPrior(objs, n)
    check_joint_like(prior, comps, case["theta"], case["where"], n, "joint", ctx)
    ctx.nontrivial(interleaved(comps))
    ctx.event(f"ncomp={len(comps)}")
    ctx.event("interleaved" if interleaved(comps) else "ascending")
    kinds = [c["kind"] for c in comps]
    ctx.event("repeated-class" if len(set(kinds)) < len(kinds) else "distinct-classes")
    ctx.event("outside" if "outside" in case["where"] else ("edge" if "edge" in case["where"] else "inside"))


def body_single(case, ctx):
    # a single multi-variable prior applied to a sub-set of a longer vector is a one-component layout
    c = case["comps"][0]
    prior = make(c["kind"], c["pars"], c["idx"])
    idx = c["idx"]
    th = np.zeros(case["n"])
    for i in range(case["n"]):
        th[i] = case["theta"][i]
    terms = [ref_logpdf(c["kind"], p, th[i]) for i, p in zip(idx, c["pars"])]
    with np.errstate(all="ignore"):
        val = float(prior(th))
    label = f"single:{c['kind']}"
    if any(t is None for t in terms):
        if not val <= -1e30:
            raise Violation(f"{label}:outside-support", f"log-prior {val!r} outside the support")
    else:
        ref = mp.fsum(terms)
        scale = float(mp.fsum([abs(t) for t in terms])) + len(idx)
        err = abs(float(mp.mpf(val) - ref))
        ctx.ratio(f"{label}:value", err, 1e-12 * scale)
        if err > 1e-12 * scale:
            raise Violation(f"{label}:value", f"log-prior {val!r} vs reference {mp.nstr(ref, 20)}")
        if all(case["where"][i] == "inside" for i in idx):
            g = np.asarray(prior.gradient(th), dtype=float)
            if g.shape != (len(idx),):
                raise Violation(f"{label}:gradient-shape", f"gradient shape {g.shape}")
            for k, (i, p) in enumerate(zip(idx, c["pars"])):
                rg = mp.mpf(0) if c["kind"] == "uniform" else ref_dlogpdf(c["kind"], p, th[i])
                if abs(float(mp.mpf(g[k]) - rg)) > 1e-11 * abs(float(rg)) + grad_floor(c["kind"], p, th[i]):
                    raise Violation(f"{label}:gradient", f"entry {k} is {g[k]!r}, reference {mp.nstr(rg, 17)}")
            gradient_survives_caller(prior, th, g, label)
    for k, p in enumerate(c["pars"]):
        rb = ref_bounds(c["kind"], p)
        if not (same_bound(prior.bounds[k][0], rb[0]) and same_bound(prior.bounds[k][1], rb[1])):
            raise Violation(f"{label}:bounds", f"bounds[{k}] = {prior.bounds[k]} vs support {rb}")
    far = any(abs(np.log10(abs(v))) > 1 for p in c["pars"] for v in p if v != 0)
    ctx.nontrivial(far)
    ctx.event(f"kind={c['kind']}")
    ctx.event("outside" if any(t is None for t in terms) else "inside-or-edge")


@st.composite
def single_layouts(draw):
    lay = draw(layouts(max_n=6, max_comp=1))
    # keep only a sub-set of the indices for the single prior: the rest of theta is ignored
    c = lay["comps"][0]
    keep = draw(st.integers(1, len(c["idx"])))
    c["idx"], c["pars"] = c["idx"][:keep], c["pars"][:keep]
    # "for all hyper-parameter values": also Gaussian widths whose squares / inverse squares leave the float range
    if c["kind"] == "gauss" and draw(st.integers(0, 7)) == 0:
        ex = draw(st.sampled_from([-170.0, -158.0, 158.0, 170.0]))
        for k, i in enumerate(c["idx"]):
            u = draw(st.floats(-40, 40))
            c["pars"][k] = [0.0, 10.0 ** ex]
            lay["theta"][i] = u * 10.0 ** ex
    return lay


def body_normalisation(case, ctx):
    kind, par = case["kind"], case["par"]
    prior = make(kind, [par], [0])

    def dens(t):
        with np.errstate(all="ignore"):
            return float(np.exp(prior(np.array([t]))))

    if kind == "gauss":
        m, s = par
        pts = [m + s * k for k in (-40, -8, -2, 0, 2, 8, 40)]
    elif kind == "exp":
        pts = [par[0] * k for k in (-1, 0, 1e-3, 1, 5, 50)]
    else:
        lo, hi = par
        w = hi - lo
        pts = [lo - w, lo, lo + w / 2, hi, hi + w]
    total = sum(quad(dens, a, b, epsabs=0, epsrel=1e-10, limit=200)[0] for a, b in zip(pts[:-1], pts[1:]))
    # the integration variable is itself rounded at eps*|location|: allow for that granularity
    width = par[1] if kind == "gauss" else (par[0] if kind == "exp" else par[1] - par[0])
    tol = 1e-7 + 1e3 * np.finfo(float).eps * max(abs(v) for v in par) / width
    ctx.ratio(f"normalisation:{kind}", abs(total - 1), tol)
    if abs(total - 1) > tol:
        raise Violation(f"normalisation:{kind}", f"integral of exp(log-prior) = {total!r} for {par}")
    ctx.nontrivial(any(abs(np.log10(abs(v))) > 1 for v in par if v != 0))
    ctx.event(f"kind={kind}")


@st.composite
def norm_cases(draw):
    kind = draw(st.sampled_from(["gauss", "exp", "uniform"]))
    return {"seed": 0, "kind": kind, "par": draw(params(kind))}


def ks_check(draws, cdf, key, what, ctx):
    res = stats.kstest(draws, cdf)
    ctx.stat(test="KS", what=what, n=len(draws), statistic=float(res.statistic), p=float(res.pvalue), threshold=P_FLOOR)
    if res.pvalue < P_FLOOR:
        raise Violation(key, f"{what}: KS statistic {res.statistic:.4f}, p = {res.pvalue:.3g} over {len(draws)} draws")


def body_sampling(case, ctx):
    comps, n = case["comps"], case["n"]
    objs = [make(c["kind"], c["pars"], c["idx"]) for c in comps]
    prior = JointPrior(objs, n) if case.get("joint", True) else objs[0]
    N = 1500 if ctx.tier == "quick" else 20000
    if ctx.replay:
        N = 20000
    draws = np.array([np.asarray(prior.sample(), dtype=float) for _ in range(N)])
    if draws.shape != (N, n):
        raise Violation("sampling:shape", f"sample() gives arrays of shape {draws.shape[1:]}, expected ({n},)")
    for c in comps:
        for i, p in zip(c["idx"], c["pars"]):
            col = draws[:, i]
            lo, hi = ref_bounds(c["kind"], p)
            if (lo is not None and col.min() < lo) or (hi is not None and col.max() > hi):
                raise Violation(f"sampling:bounds:{c['kind']}", f"coordinate {i}: draws in [{col.min()}, {col.max()}] leave support {(lo, hi)}")
            ks_check(col, ref_cdf(c["kind"], p), f"sampling:law:{c['kind']}",
                     f"coordinate {i} owned by {c['kind']}{p} in layout {[(k['kind'], k['idx']) for k in comps]}", ctx)
    # the joint density is the product of the components': different coordinates of one draw are independent. Exact-null test: under
    # independence the normal scores of two coordinates have a sample correlation r with r*sqrt((N-2)/(1-r^2)) ~ Student-t(N-2)
    owner = {i: (c["kind"], p) for c in comps for i, p in zip(c["idx"], c["pars"])}
    scores = {}
    for i in range(n):
        u = np.clip(ref_cdf(*owner[i])(draws[:, i]), 1e-300, 1 - 1e-16)
        scores[i] = stats.norm.ppf(u)
    for i in range(n):
        for j in range(i + 1, n):
            if np.std(scores[i]) == 0 or np.std(scores[j]) == 0:
                continue
            r = float(np.corrcoef(scores[i], scores[j])[0, 1])
            tstat = r * np.sqrt((N - 2) / max(1 - r * r, 1e-300))
            pval = float(2 * stats.t.sf(abs(tstat), N - 2))
            ctx.stat(test="correlation-t", what=f"coordinates {i},{j}", n=N, statistic=r, p=pval, threshold=P_FLOOR)
            if pval < P_FLOOR:
                raise Violation(f"sampling:dependence:{owner[i][0]}-{owner[j][0]}", f"coordinates {i} ({owner[i][0]}) and {j} ({owner[j][0]}) of one draw are correlated: r = {r:.4f} over {N} draws "
                                                                                   f"(p = {pval:.3g}) in layout {[(k['kind'], k['idx']) for k in comps]}")
    ctx.nontrivial(interleaved(comps))
    ctx.event("interleaved" if interleaved(comps) else "ascending")
    ctx.event(f"ncomp={len(comps)}")


@st.composite
def bad_layouts(draw):
    kind = draw(st.sampled_from(["repeat-within", "repeat-across", "out-of-range", "wrong-count", "negative", "missing"]))
    return {"seed": 0, "kind": kind, "n": draw(st.integers(2, 6)), "cls": draw(st.sampled_from(["gauss", "exp", "uniform"])),
            "j": draw(st.integers(0, 5))}


def body_errors(case, ctx):
    n, kind, cls = case["n"], case["kind"], case["cls"]
    par = {"gauss": [0.0, 1.0], "exp": [1.0], "uniform": [0.0, 1.0]}[cls]
    j = case["j"] % n

    def attempt():
        if kind == "repeat-within":
            idx = list(range(n))
            idx[(j + 1) % n] = idx[j]
            make(cls, [par] * n, idx)
        elif kind == "wrong-count":
            make(cls, [par] * n, list(range(n - 1)))
        elif kind == "repeat-across":
            a = make(cls, [par] * n, list(range(n)))
            b = make("gauss" if cls != "gauss" else "exp", [[0.0, 1.0] if cls != "gauss" else [1.0]], [j])
            JointPrior([a, b], n + 1)
        elif kind == "out-of-range":
            a = make(cls, [par] * n, list(range(n - 1)) + [n + j])
            JointPrior([a], n)
        elif kind == "negative":
            a = make(cls, [par] * n, list(range(n - 1)) + [-1 - j])
            JointPrior([a], n)
        else:
            a = make(cls, [par] * (n - 1), list(range(n - 1)))
            JointPrior([a], n)

    try:
        attempt()
    except (ValueError, TypeError):
        ctx.nontrivial(True)
        ctx.event(kind)
        return
    except Exception as e:
        raise Violation(f"errors:{kind}", f"raised {type(e).__name__}: {e}")
    raise Violation(f"errors:{kind}", f"invalid index layout accepted ({cls}, n={n}, j={j})")


# ------------------------------------------------------------------ Posterior
class RecPrior:
    """Delegating recorder around a prior."""

    def __init__(self, prior):
        self.prior, self.draws = prior, []

    def __call__(self, th):
        return self.prior(th)

    def gradient(self, th):
        return self.prior.gradient(th)

    def sample(self):
        s = self.prior.sample()
        self.draws.append(np.array(s, dtype=float, copy=True))
        return s


class QuadLike:
    def __init__(self, centre, w):
        self.c, self.w = np.array(centre, dtype=float), np.array(w, dtype=float)

    def __call__(self, th):
        return float(-0.5 * np.sum(self.w * (np.asarray(th) - self.c) ** 2))

    def gradient(self, th):
        return -self.w * (np.asarray(th) - self.c)


@st.composite
def post_cases(draw):
    bare = draw(st.booleans())
    lay = draw(layouts(max_n=5, max_comp=1 if bare else 3))
    if bare:
        # a single prior object handed to Posterior directly (no JointPrior in between): its variables are 0..n-1 in order
        c = lay["comps"][0]
        order = sorted(range(len(c["idx"])), key=lambda o: c["idx"][o])
        c["idx"], c["pars"] = [c["idx"][o] for o in order], [c["pars"][o] for o in order]
    lay["bare"] = bare
    n = lay["n"]
    owner = {i: (c["kind"], p) for c in lay["comps"] for i, p in zip(c["idx"], c["pars"])}
    lay["more_thetas"] = [[draw(theta_for(*owner[i]))[0] for i in range(n)] for _ in range(draw(st.integers(1, 3)))]
    lay["calls"] = draw(st.lists(st.tuples(st.sampled_from(["value", "cost", "gradient", "cost_gradient"]),
                                           st.integers(0, len(lay["more_thetas"]))), min_size=2, max_size=10))
    lay["centre"] = [draw(st.floats(-3, 3)) for _ in range(n)]
    lay["w"] = [draw(st.sampled_from([0.0, 1.0, 10.0 ** draw(st.floats(-3, 3))])) for _ in range(n)]
    lay["m"] = draw(st.integers(1, 40))
    lay["k"] = draw(st.integers(1, lay["m"]))
    return lay


def body_posterior(case, ctx):
    comps, n = case["comps"], case["n"]
    if case.get("bare"):
        c = comps[0]
        inner = make(c["kind"], c["pars"], c["idx"])
    else:
        inner = JointPrior([make(c["kind"], c["pars"], c["idx"]) for c in comps], n)
    prior = RecPrior(inner)
    like = QuadLike(case["centre"], case["w"])
    thetas = [np.array(t, dtype=float) for t in [case["theta"]] + case.get("more_thetas", [])]
    # the components' own answers, taken (as copies) from separate objects that the posterior never sees
    twin = make(comps[0]["kind"], comps[0]["pars"], comps[0]["idx"]) if case.get("bare") else \
        JointPrior([make(c["kind"], c["pars"], c["idx"]) for c in comps], n)
    with np.errstate(all="ignore"):
        want = [(like(t), float(twin(t)), np.array(like.gradient(t), dtype=float, copy=True),
                 np.array(twin.gradient(t), dtype=float, copy=True)) for t in thetas]
    post = Posterior(likelihood=like, prior=prior)
    calls = [("value", 0), ("cost", 0), ("gradient", 0), ("cost_gradient", 0)] + [tuple(c) for c in case.get("calls", [])]
    with np.errstate(all="ignore"):
        for step, (what, j) in enumerate(calls):
            th = thetas[j]
            lv, pv, lg, pg = want[j]
            arg = th.copy()
            if what == "value":
                v = post(arg)
                if v != lv + pv:
                    raise Violation("posterior:value", f"call {step}: {v!r} != {lv!r} + {pv!r}")
            elif what == "cost":
                v = post.cost(arg)
                if v != -(lv + pv):
                    raise Violation("posterior:cost", f"call {step}: cost {v!r} != -({lv!r} + {pv!r})")
            elif what == "gradient":
                g = np.asarray(post.gradient(arg))
                if not np.array_equal(g, lg + pg):
                    raise Violation("posterior:gradient", f"call {step} ({'bare ' + comps[0]['kind'] if case.get('bare') else 'joint'} prior): "
                                                          f"gradient {g.tolist()} is not the sum of likelihood {lg.tolist()} and prior {pg.tolist()} gradients")
            else:
                g = np.asarray(post.cost_gradient(arg))
                if not np.array_equal(g, -(lg + pg)):
                    raise Violation("posterior:cost-gradient", f"call {step}: cost_gradient {g.tolist()} is not the negated sum {(-(lg + pg)).tolist()}")
        # the posterior calls must not change what the components themselves answer (each prior's gradient stays the derivative
        # of its log-density)
        for t, (lv, pv, lg, pg) in zip(thetas, want):
            if float(inner(t)) != pv or not np.array_equal(np.asarray(inner.gradient(t), dtype=float), pg):
                raise Violation("posterior:component-state", "after the posterior calls the prior no longer returns its own value / gradient "
                                                            f"({np.asarray(inner.gradient(t)).tolist()} vs {pg.tolist()})")
    ctx.event("bare-prior:" + comps[0]["kind"] if case.get("bare") else "joint-prior")
    th = thetas[0]
    m, k = case["m"], case["k"]
    prior.draws.clear()
    guesses = post.generate_initial_guesses(n_guesses=k, prior_samples=m)
    if len(prior.draws) != m:
        raise Violation("guesses:draw-count", f"{len(prior.draws)} prior draws made, {m} requested")
    if len(guesses) != k:
        raise Violation("guesses:count", f"{len(guesses)} guesses returned, {k} requested")
    costs_all = sorted(float(post.cost(d)) for d in prior.draws)
    gc = [float(post.cost(gs)) for gs in guesses]
    if any(b < a for a, b in zip(gc[:-1], gc[1:])):
        raise Violation("guesses:order", f"costs of the returned guesses are not non-decreasing: {gc}")
    if gc != costs_all[:k]:
        raise Violation("guesses:best", f"returned costs {gc} are not the {k} lowest of the {m} draws {costs_all[:k + 2]}")
    for gs in guesses:
        if not any(np.array_equal(np.asarray(gs, dtype=float), d) for d in prior.draws):
            raise Violation("guesses:membership", "a returned guess is not one of the prior draws")
    ctx.nontrivial(interleaved(comps) or (1 < k < m))
    ctx.event("k==m" if k == m else ("k==1" if k == 1 else "1<k<m"))


# ------------------------------------------------------------------ whole-number hyper-parameters / parameter vectors held as integers
@st.composite
def int_layouts(draw):
    n = draw(st.integers(1, 6))
    perm = draw(st.permutations(list(range(n))))
    ncomp = draw(st.integers(1, min(4, n)))
    cuts = sorted(draw(st.lists(st.integers(1, n - 1), min_size=ncomp - 1, max_size=ncomp - 1, unique=True))) if n > 1 else []
    comps, theta = [], [0] * n
    for g in [list(perm[a:b]) for a, b in zip([0] + cuts, cuts + [n])]:
        kind = draw(st.sampled_from(["gauss", "exp", "uniform"]))
        pars = []
        for i in g:
            if kind == "gauss":
                par = [draw(st.integers(-20, 20)), draw(st.integers(1, 6))]
                theta[i] = par[0] + draw(st.integers(-12, 12))
            elif kind == "exp":
                par = [draw(st.integers(1, 6))]
                theta[i] = draw(st.integers(0, 30))
            else:
                lo = draw(st.integers(-20, 20))
                par = [lo, lo + draw(st.integers(1, 9))]
                if draw(st.integers(0, 3)) == 0:
                    # a wide interval (its width does not fit in an 8-bit type that holds both limits)
                    par = [-draw(st.integers(60, 120)), draw(st.integers(60, 120))]
                theta[i] = draw(st.integers(par[0], par[1]))
            pars.append(par)
        comps.append({"kind": kind, "idx": g, "pars": pars})
    return {"seed": draw(st.integers(0, 2**31)), "n": n, "comps": comps, "theta": theta,
            "par_form": draw(st.sampled_from(["pyint", "int64", "int32", "int8", "uint8", "int16", "float32", "float16", "float64"])),
            "scalars": draw(st.sampled_from([None, None, "list", "bare"])), "idx_style": draw(st.sampled_from(["list", "list", "array", "np-list", "bare"])),
            "theta_form": draw(st.sampled_from(["int64", "int32", "int64", "float64", "int8"])),
            "joint": draw(st.booleans())}


def make_form(kind, pars, idx, form, scalars=None, idx_style="list"):
    def as_array(v):
        a = np.array(v, dtype=float)
        with np.errstate(all="ignore"):
            b = a.astype(form)
        return b if np.array_equal(b.astype(float), a) else a.astype(np.int64)      # (a type that cannot hold the numbers: int64)

    conv = (lambda v: [int(x) for x in v]) if form == "pyint" else (as_array if form != "float" else (lambda v: [float(x) for x in v]))
    if scalars and form not in ("pyint", "float"):
        # values taken out of an array one by one are numpy scalars: a list of them, or the scalar itself for a single parameter
        arr = conv
        conv = (lambda v: (lambda a: a[0] if (scalars == "bare" and a.size == 1) else list(a))(arr(v)))
    # the indices as a caller may hold them: a list of Python ints, an index array (arange, flatnonzero), a list of numpy integers,
    # a single numpy integer
    ids = {"list": list(idx), "array": np.array(idx, dtype=np.int64), "np-list": list(np.array(idx, dtype=np.int32)),
           "bare": (np.int64(idx[0]) if len(idx) == 1 else list(idx))}[idx_style]
    if kind == "gauss":
        args = {"mean": conv([p[0] for p in pars]), "sigma": conv([p[1] for p in pars])}
        obj = GaussianPrior(variable_indices=ids, **args)
    elif kind == "exp":
        args = {"beta": conv([p[0] for p in pars])}
        obj = ExponentialPrior(variable_indices=ids, **args)
    else:
        args = {"lower": conv([p[0] for p in pars]), "upper": conv([p[1] for p in pars])}
        obj = UniformPrior(variable_indices=ids, **args)
    if isinstance(ids, np.ndarray):
        ids[...] = 0      # (the caller's array, re-used)
    # the arrays handed over are the caller's: it may re-use them (here: refill them) once the prior is built
    for a in args.values():
        if isinstance(a, np.ndarray) and a.flags.writeable:
            a[...] = 3
    return obj


def body_int_forms(case, ctx):
    """a prior given whole-number hyper-parameters as integers, evaluated at a whole-number vector held as integers, is the prior given
    the same numbers as floats"""
    comps, n = case["comps"], case["n"]
    if not case["joint"]:
        comps = comps[:1]
    obj_i = [make_form(c["kind"], c["pars"], c["idx"], case["par_form"], case.get("scalars"), case.get("idx_style", "list")) for c in comps]
    obj_f = [make_form(c["kind"], c["pars"], c["idx"], "float") for c in comps]
    pri_i, pri_f = (JointPrior(obj_i, n), JointPrior(obj_f, n)) if case["joint"] else (obj_i[0], obj_f[0])
    th_f = np.array(case["theta"], dtype=float)
    tf = case["theta_form"]
    th_i = th_f.copy() if tf == "float64" else ([int(v) for v in case["theta"]] if tf == "pyint-list" else np.array(case["theta"], dtype=tf))
    tag = f"{case['par_form']}/{tf}"
    with np.errstate(all="ignore"):
        v_i, v_f = float(pri_i(th_i)), float(pri_f(th_f))
        if not (v_i == v_f or abs(v_i - v_f) <= 1e-12 * (abs(v_f) + 1)):
            raise Violation(f"int-forms:value", f"[{tag}] layout {[(c['kind'], c['idx'], c['pars']) for c in comps]} at {case['theta']}: log-prior {v_i!r} with integer inputs, {v_f!r} with the same numbers as floats")
        if v_f > -1e30:
            g_i, g_f = np.asarray(pri_i.gradient(th_i), dtype=float), np.asarray(pri_f.gradient(th_f), dtype=float)
            if g_i.shape != g_f.shape or not np.allclose(g_i, g_f, rtol=1e-12, atol=0):
                raise Violation(f"int-forms:gradient", f"[{tag}] layout {[(c['kind'], c['idx'], c['pars']) for c in comps]} at {case['theta']}: gradient {g_i.tolist()} with integer inputs, {g_f.tolist()} with floats")
            c_i, cg_i = float(pri_i.cost(th_i)), np.asarray(pri_i.cost_gradient(th_i), dtype=float)
            if c_i != -v_i or not np.array_equal(cg_i, -g_i):
                raise Violation(f"int-forms:cost", f"[{tag}] cost / cost_gradient are not the negatives of value / gradient for integer inputs")
        b_i, b_f = list(pri_i.bounds), list(pri_f.bounds)
        if len(b_i) != len(b_f) or any(not (same_bound(a[0], b[0]) and same_bound(a[1], b[1])) for a, b in zip(b_i, b_f)):
            raise Violation(f"int-forms:bounds", f"[{tag}] bounds {b_i} vs {b_f}")
        rngctl.reset(case["seed"])
        s_i = np.array([np.asarray(pri_i.sample(), dtype=float) for _ in range(20)])
        rngctl.reset(case["seed"])
        s_f = np.array([np.asarray(pri_f.sample(), dtype=float) for _ in range(20)])
        if s_i.shape != s_f.shape or not np.allclose(s_i, s_f, rtol=1e-12, atol=1e-12):
            raise Violation(f"int-forms:sample", f"[{tag}] layout {[(c['kind'], c['idx'], c['pars']) for c in comps]}: draws from the same generator state differ: {s_i[0].tolist()} vs {s_f[0].tolist()}")
    ctx.nontrivial(len(comps) >= 2 or len(comps[0]["idx"]) >= 2)
    ctx.event("pars=" + case["par_form"])
    ctx.event(f"numpy scalars={case.get('scalars')}, indices={case.get('idx_style', 'list')}")
    ctx.event("theta=" + tf)
    ctx.event("joint" if case["joint"] else "single")


SUBCHECKS = [
    Sub("single", lambda t: single_layouts(), body_single, quick=2500, thorough=60000, shards_quick=5, shards_thorough=16,
        rule="a hyper-parameter farther than 10x from 1"),
    Sub("joint", lambda t: layouts(), body_joint, quick=3000, thorough=100000, shards_quick=6, shards_thorough=16,
        rule=">= 2 components whose concatenated indices are not ascending (interleaved / descending / permuted order)"),
    Sub("normalisation", lambda t: norm_cases(), body_normalisation, quick=300, thorough=6000, shards_quick=3, shards_thorough=8,
        rule="a hyper-parameter farther than 10x from 1"),
    Sub("sampling", lambda t: layouts(max_n=6, max_comp=4), body_sampling, quick=160, thorough=2500, shards_quick=8,
        shards_thorough=16, weight=50, rule=">= 2 components with non-ascending / interleaved indices"),
    Sub("errors", lambda t: bad_layouts(), body_errors, quick=200, thorough=2000, rule="every invalid-layout class"),
    Sub("posterior", lambda t: post_cases(), body_posterior, quick=1500, thorough=40000, shards_quick=4, shards_thorough=16,
        rule="interleaved joint prior, or 1 < n_guesses < prior_samples"),
    Sub("int-forms", lambda t: int_layouts(), body_int_forms, quick=1500, thorough=40000, shards_quick=4, shards_thorough=16,
        rule=">= 2 variables with integer-typed hyper-parameters"),
]
