"""C18 - acquisition functions compute what they define; proposals respect bounds.

(a) values over all z with a stub regressor (mu, sigma, y_max free): 50-digit mpmath reference for
    E[max(f - y_max, 0)], both branches, continuity at z = -3, UCB, max-variance, opt_func = -objective;
(b) value-and-gradient forms on real regressors against stencils of opt_func;
(c) model-based histories of GpOptimiser: propose / add sequences against a list model of the data.
"""
import warnings

import numpy as np
import mpmath as mp
import scipy.linalg as sla
from hypothesis import strategies as st

from vlib import rngctl  # noqa: F401
from vlib import refkernels as rk, gpcases as gc, numdiff
from vlib.core import Sub, Violation, Inconclusive
from inference.gp import GpRegressor, GpOptimiser, ExpectedImprovement, UpperConfidenceBound, MaxVariance, SquaredExponential, RationalQuadratic, WhiteNoise, HeteroscedasticNoise

mp.mp.dps = 50
EPS = np.finfo(float).eps
RULE = ("(a) (mu, sigma, y_max) with z from -1e9 to 1e6 and non-zero spatial derivatives of the predictive mean / variance, sigma over 1e-12..1e6; (b) SquaredExponential regressors in d=1..3 with "
        "queries on both sides of z=-3; (c) histories of propose(bfgs|diffev) / add_evaluation(x as scalar|1-D|(1,d), y[, err]); "
        "non-trivial = (a) |z| > 3, (b) z < -3 or d >= 2, (c) a history with >= 2 adds and >= 1 proposal")
ASSUMPTIONS = ["|z| <= 1e9",
               "log-EI tolerance 1e-12*max(1,|log EI|) + 1e-11 (an earlier version added 64*eps*z^2, 'the cancellation in 1 + z*R(z) is inherent "
               "to float64': it is inherent to that way of writing the tail factor, not to the quantity)"]


class StubGP:
    """duck-typed regressor state: predictive mean / sd are whatever the case says"""

    def __init__(self, mu, sig, y_max, dmu=0.0, dvar=0.0):
        self.mu, self.sig = float(mu), float(sig)
        self.y = np.array([y_max - 1.0, y_max])
        self.x = np.zeros((2, 1))
        self.dmu, self.dvar = float(dmu), float(dvar)

    def __call__(self, x):
        return np.array([self.mu]), np.array([self.sig])

    def spatial_derivatives(self, x):
        return np.array([self.dmu]), np.array([self.dvar])


def ref_log_ei(mu, sig, ymax):
    mu, sig, ymax = mp.mpf(mu), mp.mpf(sig), mp.mpf(ymax)
    z = (mu - ymax) / sig
    cdf = mp.erfc(-z / mp.sqrt(2)) / 2
    pdf = mp.exp(-z * z / 2) / mp.sqrt(2 * mp.pi)
    ei = sig * (z * cdf + pdf)
    return mp.log(ei), ei, z


@st.composite
def value_cases(draw):
    mode = draw(st.sampled_from(["bulk", "neg-tail", "far-neg", "pos", "switch"]))
    log_sig = draw(st.floats(-12, 6))
    ymax = draw(st.sampled_from([0.0, 1.0, -3.5, 1e3, -1e5])) * draw(st.sampled_from([1.0, 1.0, 0.37]))
    if mode == "bulk":
        z = draw(st.floats(-3, 3))
    elif mode == "neg-tail":
        z = draw(st.floats(-40, -3))
    elif mode == "far-neg":
        z = -10 ** draw(st.floats(1.5, 9))
    elif mode == "pos":
        z = 10 ** draw(st.floats(0, 6))
    else:
        z = -3.0 + draw(st.integers(-4, 4)) * 4.440892098500626e-16 * draw(st.sampled_from([1, 1, 1000, 10**6]))
    return {"seed": 0, "mode": mode, "z": z, "log_sig": log_sig, "ymax": ymax,
            "kappa": draw(st.floats(0, 10)), "exact_z": draw(st.booleans()),
            # spatial derivatives of the predictive mean and variance at the query point, in units of sigma and sigma^2
            "dmu_u": draw(st.floats(-3, 3)), "dvar_u": draw(st.floats(-3, 3))}


def body_values(case, ctx):
    sig = 10.0 ** case["log_sig"]
    ymax = case["ymax"]
    if case["mode"] == "switch" or case["exact_z"]:
        sig, ymax = 1.0, 0.0  # z == mu exactly
    mu = ymax + case["z"] * sig
    # (derivatives below a thousandth of the natural unit are taken as exactly zero: products with sigma^2 down to 1e-24 would
    # otherwise be subnormal numbers, which carry only a few digits themselves)
    du, dv = (u if abs(u) >= 1e-3 else 0.0 for u in (case.get("dmu_u", 0.0), case.get("dvar_u", 0.0)))
    dmu, dvar = du * sig, dv * sig * sig
    stub = StubGP(mu, sig, ymax, dmu, dvar)
    x = np.zeros(1)
    # ---- expected improvement
    ei = ExpectedImprovement()
    ei.update_gp(stub)
    if ei.mu_max != ymax:
        raise Violation("mu_max", f"incumbent {ei.mu_max!r} is not max(y) = {ymax!r}")
    z_impl = (mu - ymax) / sig
    ref_ln, ref_ei, z = ref_log_ei(mu, sig, ymax)
    with np.errstate(all="ignore"):
        val = float(ei(x))
        neg_ln = float(ei.opt_func(x))
        g_val, g_grad = ei.opt_func_gradient(x)
    tol = 1e-12 * max(1.0, abs(float(ref_ln))) + 1e-11
    err = abs(float(mp.mpf(-neg_ln) - ref_ln))
    branch = "tail" if z_impl < -3 else "ordinary"
    ctx.ratio(f"log-EI:{branch}", err, tol)
    if not np.isfinite(neg_ln) or err > tol:
        raise Violation(f"ei-log:{branch}", f"z = {float(z)!r}, sigma = {sig!r}: opt_func = {neg_ln!r} but -log E[max(f - y_max, 0)] = {float(-ref_ln)!r} (tol {tol:.3g})")
    if abs(float(g_val) - neg_ln) > 1e-12 * max(1.0, abs(neg_ln)):
        raise Violation(f"ei-gradient-value:{branch}", f"value from opt_func_gradient {float(g_val)!r} vs opt_func {neg_ln!r}")
    # the spatial gradient of -log EI from the chain rule: dEI/dmu = Phi(z), dEI/dsigma = phi(z), dsigma = dvar / (2 sigma)
    zz = (mp.mpf(mu) - mp.mpf(ymax)) / mp.mpf(sig)
    cdf_, pdf_ = mp.erfc(-zz / mp.sqrt(2)) / 2, mp.exp(-zz * zz / 2) / mp.sqrt(2 * mp.pi)
    parts = [pdf_ * mp.mpf(dvar) / (2 * mp.mpf(sig)) / ref_ei, cdf_ * mp.mpf(dmu) / ref_ei]
    ref_g = -(parts[0] + parts[1])
    g_tol = 1e-10 * float(abs(parts[0]) + abs(parts[1])) + 1e-300
    g_err = abs(float(mp.mpf(float(np.asarray(g_grad).ravel()[0])) - ref_g))
    ctx.ratio(f"EI-gradient:{branch}", g_err, g_tol)
    if not np.isfinite(float(np.asarray(g_grad).ravel()[0])) or g_err > g_tol:
        raise Violation(f"ei-gradient:{branch}", f"z = {float(z)!r}, sigma = {sig!r}, dmu = {dmu!r}, dvar = {dvar!r}: gradient of opt_func {float(np.asarray(g_grad).ravel()[0])!r}, "
                                                f"chain rule gives {float(ref_g)!r}")
    ref_f = float(ref_ei)
    if ref_f > 1e-290:
        rel = abs(val - ref_f) / ref_f
        t2 = 1e-11 + 8 * EPS * abs(float(ref_ln))
        ctx.ratio(f"EI:{branch}", rel, t2)
        if not np.isfinite(val) or rel > t2:
            raise Violation(f"ei-value:{branch}", f"z = {float(z)!r}, sigma = {sig!r}: EI = {val!r} but E[max(f - y_max, 0)] = {ref_f!r}")
    elif not (0 <= val <= 1e-280):
        raise Violation(f"ei-value:{branch}", f"z = {float(z)!r}: EI = {val!r}, expectation underflows to 0")
    if val < 0:
        raise Violation(f"ei-negative:{branch}", f"EI = {val!r} < 0 at z = {float(z)!r}")
    # ---- continuity across the switch: both branches evaluated at (almost) the same z
    if case["mode"] == "switch":
        lo = StubGP(np.nextafter(-3.0, -4.0), 1.0, 0.0)
        hi = StubGP(-3.0, 1.0, 0.0)
        vals = []
        for s in (lo, hi):
            e2 = ExpectedImprovement()
            e2.update_gp(s)
            vals.append(float(e2.opt_func(x)))
        if abs(vals[0] - vals[1]) > 1e-9:
            raise Violation("ei-continuity", f"log EI jumps by {abs(vals[0] - vals[1]):.3g} across z = -3 ({vals[0]!r} vs {vals[1]!r})")
    # ---- UCB and max variance
    kappa = case["kappa"]
    ucb = UpperConfidenceBound(kappa=kappa)
    ucb.update_gp(stub)
    want = mu + kappa * sig
    got, neg = float(ucb(x)), float(ucb.opt_func(x))
    slack = 4 * EPS * (abs(mu) + abs(kappa * sig))
    if abs(got - want) > slack or abs(neg + want) > slack or abs(float(ucb.opt_func_gradient(x)[0]) + want) > slack:
        raise Violation("ucb-value", f"UCB {got!r} / opt_func {neg!r} vs mu + kappa*sigma = {want!r}")
    mv = MaxVariance()
    mv.update_gp(stub)
    got, neg = float(mv(x)), float(mv.opt_func(x))
    if abs(got - sig * sig) > 4 * EPS * sig * sig or abs(neg + sig * sig) > 4 * EPS * sig * sig \
            or abs(float(mv.opt_func_gradient(x)[0]) + sig * sig) > 4 * EPS * sig * sig:
        raise Violation("maxvar-value", f"MaxVariance {got!r} / opt_func {neg!r} vs sigma^2 = {sig * sig!r}")
    ctx.nontrivial(abs(case["z"]) > 3)
    ctx.event("mode=" + case["mode"])
    ctx.event("branch=" + branch)


# ------------------------------------------------------------------ (b) gradients on real regressors
@st.composite
def grad_cases(draw):
    case = draw(gc.gp_problems(max_n=10, max_d=3, max_m=3, min_n=3, kernels=["SE"], max_depth=1, noises=("y_err", "none"),
                               means=("Constant",)))
    case["acq"] = draw(st.sampled_from(["EI", "EI", "UCB", "MaxVar"]))
    case["kappa"] = draw(st.floats(0, 5))
    case["peak"] = draw(st.floats(0, 30))  # raises one datum far above the rest so that z << -3 elsewhere
    case["peak_i"] = draw(st.integers(0, 9))
    # objective values in any units: the predictive sigma carries the units of the data
    if draw(st.integers(0, 3)) == 0:
        case["y_log_scale"] = draw(st.sampled_from([-12.0, -9.0, -6.0, 6.0, 9.0]))
    return case


def body_gradients(case, ctx):
    X, y, xs, ys = gc.arrays(case)
    d, n = case["d"], case["n"]
    y = y.copy()
    y[case["peak_i"] % n] += case["peak"] * ys
    spec = case["kernel"]
    noise_kw, S = gc.noise_matrix(case, ys)
    th_cov = gc.theta_from_unit(spec, case, X, ys)
    th_mean = np.array([float(np.mean(y))])
    K = rk.ref_build(spec, X, th_cov) + S
    with np.errstate(all="ignore"):
        kappa = np.linalg.cond(K)
    if not np.isfinite(kappa) or kappa > 1e6:
        raise Inconclusive("ill-conditioned (kappa > 1e6)")
    with warnings.catch_warnings():
        warnings.simplefilter("ignore")
        gp = GpRegressor(X.copy(), y.copy(), hyperpars=np.concatenate([th_mean, th_cov]), kernel=rk.build_kernel(spec), **noise_kw)
    acq = {"EI": ExpectedImprovement, "UCB": lambda: UpperConfidenceBound(kappa=case["kappa"]), "MaxVar": MaxVariance}[case["acq"]]()
    acq.update_gp(gp)
    Q = gc.queries(case, X, xs)
    L = np.exp(th_cov[1:])
    a = np.exp(th_cov[0])
    for q in Q:
        with np.errstate(all="ignore"):
            mu, sig = gp(q.reshape(1, d))
        if not sig[0] > 1e-4 * a:
            ctx.event("skipped:sigma~0")
            continue
        z = (mu[0] - acq.mu_max) / sig[0]
        if case["acq"] == "EI" and z < -1e4:
            ctx.event("skipped:z<-1e4")
            continue
        with np.errstate(all="ignore"):
            val, grad = acq.opt_func_gradient(q.copy())
            plain = float(acq.opt_func(q.copy()))
        grad = np.atleast_1d(np.asarray(grad, dtype=float))
        if grad.shape != (d,):
            raise Violation(f"gradient-shape:{case['acq']}", f"gradient shape {grad.shape} in {d} dimensions")
        if abs(float(val) - plain) > 1e-10 * max(1.0, abs(plain)):
            raise Violation(f"gradient-value:{case['acq']}", f"opt_func_gradient value {float(val)!r} vs opt_func {plain!r}")

        # ---- closed-form reference gradient, written from the documented formulas (squared-exponential kernel, constant mean):
        # no stencil, so no stencil noise - this is the sharp oracle; the stencil below is independent of these formulas
        kq = rk.ref_call(spec, q.reshape(1, d), X, th_cov, n)[0]
        Kinv_k = sla.solve(K, kq, assume_a="sym")
        alpha_r = sla.solve(K, y - th_mean[0], assume_a="sym")
        var_r = a * a - float(kq @ Kinv_k)
        if var_r > (1e-4 * a) ** 2:
            sig_r = np.sqrt(var_r)
            mu_r = th_mean[0] + float(kq @ alpha_r)
            J = (X - q[None, :]).T / L[:, None] ** 2 * kq[None, :]
            dmu, dvar = J @ alpha_r, -2.0 * (J @ Kinv_k)
            dsig = dvar / (2 * sig_r)
            ampr = max(1.0, (a / sig_r) ** 2)
            # (this reference is float64 arithmetic too - the same solves, the same cancellation in the variance: the allowance covers the
            # rounding of both sides)
            rel = 2 * (1e-9 + 100 * kappa * EPS)
            e_mu = np.abs(J) @ np.abs(alpha_r) + 64 * EPS * float(np.max(np.abs(y))) / L       # what dmu can be off by, per unit rel
            e_sig = (a / L) * (a / sig_r) * ampr
            if case["acq"] == "UCB":
                g_ref = -(dmu + case["kappa"] * dsig)
                tol_ref = rel * (e_mu + case["kappa"] * e_sig) + 1e-300
            elif case["acq"] == "MaxVar":
                g_ref = -dvar
                tol_ref = rel * (a * a / L) + 1e-300
            else:
                zr = mp.mpf(mu_r - acq.mu_max) / mp.mpf(sig_r)
                Phi, phi = mp.ncdf(zr), mp.npdf(zr)
                den = mp.mpf(sig_r) * (zr * Phi + phi)
                g_ref = np.array([-float((Phi * mp.mpf(dmu[i]) + phi * mp.mpf(dsig[i])) / den) for i in range(d)])
                # sensitivity to the round-off of z itself (mu is formed at the level of the data, sigma^2 by cancellation)
                zf = abs(float(zr))
                dz = rel * ampr * (1 + zf) + 64 * EPS * float(np.max(np.abs(y))) / sig_r
                tol_ref = rel * (e_mu + e_sig) * (1 + zf) / sig_r + dz * (1 + zf) * (np.abs(g_ref) + float(np.max(np.abs(g_ref)))) + 1e-300
            e_ref = float(np.max(np.abs(grad - g_ref) / tol_ref))
            ctx.ratio(f"gradient-closed-form:{case['acq']}", e_ref, 1.0)
            if not e_ref <= 1:
                i = int(np.argmax(np.abs(grad - g_ref) / tol_ref))
                raise Violation(f"gradient-closed-form:{case['acq']}", f"d={d}, z={z:.4g}, sigma={sig[0]:.3g}, data scale {ys:.3g}: d opt_func/dx{i} = {grad[i]!r}, "
                                                                      f"closed form {g_ref[i]!r} (tol {tol_ref[i]:.3g})")
            ctx.event("closed-form-compared")

        def f(qq):
            with np.errstate(all="ignore"):
                return float(acq.opt_func(qq))

        branch = ("tail" if z < -3 else "ordinary") if case["acq"] == "EI" else "n/a"
        for i in range(d):
            h = 1e-3 * L[i] * min(1.0, 3.0 / max(abs(z), 1.0))
            err, tol, conv = numdiff.compare(grad[i], f, q, i, h, rel=1e-5)
            if not conv:
                ctx.inconclusive["stencil-not-converged"] += 1
                continue
            # sigma^2 = K_qq - v.v is formed by cancellation: its relative rounding error is eps*a^2/sigma^2, and
            # the objective depends on sigma through z^2/2 (EI) or sigma itself
            amp = max(1.0, (a / sig[0]) ** 2)
            # (the objective is dimensionless for -log EI, in units of the data for the confidence bound, of its square for max-variance)
            obj_scale = {"EI": abs(plain) + 1 + z * z, "UCB": abs(plain) + a * (1 + case["kappa"]) + abs(mu[0]), "MaxVar": abs(plain) + a * a}[case["acq"]]
            floor = 100 * kappa * EPS * amp * obj_scale / h
            # the predictive mean is formed at the level of the data (eps*max|y| absolute round-off, a staircase under the
            # stencil); the objective's sensitivity to it is (|z| + 1)/sigma for -log EI and 1 for the confidence bound
            sens = {"EI": (abs(z) + 1) / sig[0], "UCB": 1.0, "MaxVar": 0.0}[case["acq"]]
            floor += 8 * EPS * float(np.max(np.abs(y))) * sens / h
            # the stencil's abscissae q +- h and the differences q - x_j carry eps*|coordinate| each: relative error
            # eps*|coordinate|/h in the step, i.e. that fraction of the slope
            floor += 8 * EPS * max(abs(q[i]), float(np.max(np.abs(X[:, i])))) / h * float(np.max(np.abs(grad)))
            if floor > 1e-3 * max(np.max(np.abs(grad)), 1e-300):
                ctx.inconclusive["stencil-roundoff-too-large"] += 1
                continue
            tol = tol + floor + 1e-6 * float(np.max(np.abs(grad)))   # a component is judged at the scale of the whole gradient
            ctx.ratio(f"gradient:{case['acq']}", err, tol)
            if not np.isfinite(err) or err > tol:
                raise Violation(f"gradient:{case['acq']}:{branch}", f"d={d}, z={z:.4g}: d opt_func/dx{i} = {grad[i]!r}; stencil differs by {err:.3g} (tol {tol:.3g})")
        ctx.event(f"{case['acq']}:{branch}")
        ctx.nontrivial(z < -3 or d >= 2)
    ctx.event(f"d={d}")


# ------------------------------------------------------------------ (c) optimiser histories
def objective(x):
    x = np.atleast_1d(np.asarray(x, dtype=float))
    return float(np.sin(3 * x[0]) + 0.5 * np.cos(2 * x.sum()) - 0.1 * np.sum(x**2))


@st.composite
def history_cases(draw):
    d = draw(st.integers(1, 3))
    n0 = draw(st.integers(3, 5))
    x0 = [[draw(st.floats(-1.8, 1.8)) for _ in range(d)] for _ in range(n0)]
    ops = []
    for _ in range(draw(st.integers(1, 4))):
        ops.append({"op": "propose", "optimizer": draw(st.sampled_from(["bfgs", "bfgs", "diffev", None]))})
        ops.append({"op": "add", "form": draw(st.sampled_from(["scalar", "1d", "2d", "list"])),
                    "use_proposal": draw(st.booleans()), "x": [draw(st.floats(-2, 2)) for _ in range(d)],
                    # a call that the optimiser documents it rejects (the error of the new value is missing although errors were given
                    # at construction) before the same evaluation is added properly
                    "first_without_err": draw(st.integers(0, 5)) == 0})
    return {"seed": draw(st.integers(0, 2**31)), "d": d, "x0": x0, "with_err": draw(st.booleans()),
            "x_dtype": draw(st.sampled_from(["float", "float", "int"])), "y_dtype": draw(st.sampled_from(["float", "float", "int"])),
            "acq": draw(st.sampled_from(["EI", "UCB", "MaxVar"])), "x_form": draw(st.sampled_from(["2d", "1d", "list"])),
            "init_optimizer": draw(st.sampled_from(["bfgs", "bfgs", "diffev"])), "ops": ops,
            "bounds_form": draw(st.sampled_from(["tuples", "lists", "array", "array", "int-array"])),
            "kernel_form": draw(st.sampled_from(["default", "default", "SE-instance", "RQ-instance", "RQ-class", "SE+White-instance", "SE+Hetero-instance"]))}


def snapshot(a):
    return None if a is None else (np.array(a, copy=True), a.shape, a.dtype) if isinstance(a, np.ndarray) else ("obj", repr(a))


def unchanged(a, snap):
    if snap is None or not isinstance(a, np.ndarray):
        return True
    return a.shape == snap[1] and a.dtype == snap[2] and np.array_equal(a, snap[0])


def body_history(case, ctx):
    d = case["d"]
    if len({tuple(r) for r in case["x0"]}) < len(case["x0"]):
        raise Inconclusive("duplicate initial points")
    X0 = np.array(case["x0"], dtype=float).reshape(-1, d)
    if case.get("x_dtype") == "int":
        # integer-valued initial design held in an integer array (as in the package's own examples)
        X0 = np.round(X0 * 4).astype(np.int64)
        if len({tuple(r) for r in X0.tolist()}) < X0.shape[0]:
            raise Inconclusive("duplicate initial points")
    y0 = np.array([objective(r) for r in X0])
    if case.get("y_dtype") == "int":
        y0 = np.round(y0 * 3).astype(np.int64)
    if np.ptp(y0) < 1e-6 or np.any(np.ptp(X0, axis=0) < 1e-3):
        raise Inconclusive("degenerate initial data")
    err0 = np.full(y0.size, 0.05) if case["with_err"] else None
    lim = 8.0 if case.get("x_dtype") == "int" else 2.0
    # the search box in any of the forms a caller holds it in; an array is the caller's own and is watched like x and y
    bform = case.get("bounds_form", "tuples")
    bounds = {"tuples": [(-lim, lim)] * d, "lists": [[-lim, lim] for _ in range(d)], "array": np.array([[-lim, lim]] * d, dtype=float),
              "int-array": np.array([[-int(lim), int(lim)]] * d, dtype=np.int64)}[bform]
    bounds_snap = snapshot(bounds) if isinstance(bounds, np.ndarray) else ("obj", repr(bounds))
    if d == 1 and case["x_form"] == "1d":
        x_in = X0[:, 0].copy()
    elif case["x_form"] == "list":
        x_in = [list(r) for r in X0] if d > 1 else [float(r[0]) for r in X0]
    else:
        x_in = X0.copy()
    y_in = y0.copy()
    err_in = None if err0 is None else err0.copy()
    snaps = [snapshot(x_in), snapshot(y_in), snapshot(err_in)]
    acq_cls = {"EI": ExpectedImprovement, "UCB": UpperConfidenceBound, "MaxVar": MaxVariance}[case["acq"]]
    with warnings.catch_warnings():
        warnings.simplefilter("ignore")
        with np.errstate(all="ignore"):
            try:
                kform = case.get("kernel_form", "default")
                # the rational-quadratic kernel documents that it offers no spatial gradients, so only the gradient-free
                # proposal optimiser applies to it
                # (nor do sums of kernels: one kernel object then serves every successive regressor, and a heteroscedastic-noise term has
                # one hyper-parameter per data point, so its parameter count grows with every added evaluation)
                rq = kform.startswith("RQ") or "+" in kform
                kkw = {} if kform == "default" else {"kernel": {"SE-instance": SquaredExponential(), "RQ-instance": RationalQuadratic(),
                                                                "RQ-class": RationalQuadratic,
                                                                "SE+White-instance": SquaredExponential() + WhiteNoise(),
                                                                "SE+Hetero-instance": SquaredExponential() + HeteroscedasticNoise()}[kform]}
                opt = GpOptimiser(x_in, y_in, bounds=bounds, y_err=err_in, acquisition=acq_cls, optimizer="diffev" if rq else case["init_optimizer"], **kkw)
            except np.linalg.LinAlgError:
                raise Inconclusive("Cholesky failure during hyper-parameter selection")
    for name, arr, sn in zip(("x", "y", "y_err"), (x_in, y_in, err_in), snaps):
        if not unchanged(arr, sn):
            raise Violation(f"caller-array:init:{name}", f"constructor changed the caller's {name}: shape {sn[1]} -> {arr.shape}")
    model_x = [np.asarray(r, dtype=float) for r in X0]
    model_y = [float(v) for v in y0]
    if case["seed"] % 3 == 0:
        # the arrays given to the constructor are the caller's: it may go on using them (the optimiser keeps the values it was given)
        for arr in (x_in, y_in, err_in):
            if isinstance(arr, np.ndarray) and arr.dtype.kind == "f":
                arr += 50.0
        snaps = [snapshot(x_in), snapshot(y_in), snapshot(err_in)]
        ctx.event("caller re-used its data arrays after construction")
        # ... and its bounds container (an array or lists filled with the search box of the next problem)
        if isinstance(bounds, np.ndarray) and bounds.dtype.kind == "f":
            bounds += 100.0
            bounds_snap = snapshot(bounds)
        elif isinstance(bounds, list) and bounds and isinstance(bounds[0], list):
            for b in bounds:
                b[0], b[1] = b[0] + 100.0, b[1] + 100.0
            bounds_snap = ("obj", repr(bounds))
    last = None
    n_add = n_prop = 0
    for op in case["ops"]:
        with warnings.catch_warnings():
            warnings.simplefilter("ignore")
            with np.errstate(all="ignore"):
                if op["op"] == "propose":
                    try:
                        prop = opt.propose_evaluation(optimizer=(None if op["optimizer"] is None else "diffev") if rq else op["optimizer"])
                    except np.linalg.LinAlgError:
                        raise Inconclusive("LinAlgError in proposal")
                    p = np.atleast_1d(np.asarray(prop, dtype=float))
                    if p.shape != (d,):
                        raise Violation("proposal-shape", f"proposal {prop!r} in {d} dimensions")
                    if np.any(p < -lim) or np.any(p > lim) or not np.all(np.isfinite(p)):
                        raise Violation(f"proposal-bounds:{op['optimizer'] or case['init_optimizer']}", f"proposal {p} outside the search box [-{lim}, {lim}]^{d}")
                    last = p
                    n_prop += 1
                else:
                    xv = np.array(last if (op["use_proposal"] and last is not None) else op["x"], dtype=float)
                    if any(np.allclose(xv, mx, atol=1e-6) for mx in model_x):
                        ctx.event("skipped-duplicate-add")
                        continue
                    yv = objective(xv)
                    form = op["form"]
                    if form == "scalar" and d == 1:
                        new_x = float(xv[0])
                    elif form == "2d":
                        new_x = xv.reshape(1, d).copy()
                    elif form == "list":
                        new_x = [float(v) for v in xv]
                    else:
                        new_x = xv.copy()
                    new_y = np.array(yv) if form == "2d" else yv
                    new_err = (np.array([0.05]) if form != "scalar" else 0.05) if case["with_err"] else None
                    sx, sy, se = snapshot(new_x), snapshot(new_y), snapshot(new_err)
                    if op.get("first_without_err") and not case["with_err"]:
                        # an evaluation whose objective failed (NaN) is refused by the re-fit - and must leave the optimiser as it was
                        try:
                            opt.add_evaluation(new_x, np.array(float("nan")) if form == "2d" else float("nan"))
                        except (ValueError, np.linalg.LinAlgError):
                            ctx.event("refused NaN evaluation, then a proper one")
                            if np.asarray(opt.x).shape[0] != len(model_x) or np.asarray(opt.y).shape[0] != len(model_y) or not np.all(np.isfinite(np.asarray(opt.y, dtype=float))):
                                raise Violation("rejected-add-changed-state", f"after add_evaluation raised for a NaN value the optimiser holds {np.asarray(opt.x).shape[0]} x / "
                                                                              f"{np.asarray(opt.y).shape[0]} y (finite: {bool(np.all(np.isfinite(np.asarray(opt.y, dtype=float))))}) for {len(model_y)} evaluations")
                        else:
                            raise Inconclusive("a NaN evaluation was accepted")
                    if case["with_err"] and op.get("first_without_err"):
                        try:
                            opt.add_evaluation(new_x, new_y)
                        except ValueError:
                            ctx.event("rejected-add-then-proper-add")
                        else:
                            raise Violation("add-without-error-accepted", "add_evaluation without new_y_err returned although y_err was given at construction")
                        # the rejected call added nothing
                        if np.asarray(opt.x).shape[0] != len(model_x) or np.asarray(opt.y).shape[0] != len(model_y) or np.asarray(opt.y_err).shape[0] != len(model_y):
                            raise Violation("rejected-add-changed-state", f"after a rejected add_evaluation (no new_y_err) the optimiser holds {np.asarray(opt.x).shape[0]} x, "
                                                                          f"{np.asarray(opt.y).shape[0]} y, {np.asarray(opt.y_err).shape[0]} y_err for {len(model_y)} evaluations")
                    try:
                        opt.add_evaluation(new_x, new_y, new_err) if case["with_err"] else opt.add_evaluation(new_x, new_y)
                    except np.linalg.LinAlgError:
                        raise Inconclusive("LinAlgError while refitting")
                    for name, arr, sn in (("new_x", new_x, sx), ("new_y", new_y, sy), ("new_y_err", new_err, se)):
                        if not unchanged(arr, sn):
                            raise Violation(f"caller-array:add:{name}", f"add_evaluation changed the caller's {name}: shape {sn[1]} -> {arr.shape}")
                    model_x.append(xv)
                    model_y.append(yv)
                    n_add += 1
        # invariants after every operation
        gx, gy = np.asarray(opt.gp.x, dtype=float), np.asarray(opt.gp.y, dtype=float)
        if gx.shape != (len(model_x), d) or gy.shape != (len(model_y),):
            raise Violation("data-size", f"model holds {len(model_x)} points, the fitted regressor has x {gx.shape}, y {gy.shape}")
        if not (np.array_equal(gx, np.array(model_x)) and np.array_equal(gy, np.array(model_y))):
            raise Violation("data-content", "the regressor's data are not the initial data followed by the added evaluations in order")
        # ... and the model is *fitted* to them: its data covariance is the documented kernel on exactly these points (one kernel
        # object may serve every successive regressor) plus the error variances
        kspec = {"SE+White-instance": {"k": "Sum", "parts": [{"k": "SE"}, {"k": "White"}]},
                 "SE+Hetero-instance": {"k": "Sum", "parts": [{"k": "SE"}, {"k": "Hetero"}]}}.get(kform, {"k": "RQ" if kform.startswith("RQ") else "SE"})
        if np.asarray(opt.x).shape[0] != len(model_x) or np.asarray(opt.y).shape[0] != len(model_y):
            raise Violation("data-size", f"the optimiser holds {np.asarray(opt.x).shape[0]} x / {np.asarray(opt.y).shape[0]} y for {len(model_y)} evaluations")
        Kref = rk.ref_build(kspec, gx, np.asarray(opt.gp.cov_hyperpars, dtype=float)) + (np.diag(np.asarray(opt.y_err, dtype=float) ** 2) if case["with_err"] else 0.0)
        Kgot = np.asarray(opt.gp.K_xx, dtype=float)
        if Kgot.shape != Kref.shape or not np.max(np.abs(Kgot - Kref)) <= 1e-9 * np.max(np.abs(Kref)):
            raise Violation(f"model-covariance:{kform}", f"after {op}: the fitted regressor's data covariance is not the kernel evaluated on its {len(model_x)} points")
        if opt.acquisition.mu_max != max(model_y) or opt.acquisition.gp is not opt.gp:
            raise Violation("incumbent", f"acquisition.mu_max = {opt.acquisition.mu_max!r}, max(y) = {max(model_y)!r}")
        if case["with_err"] and np.asarray(opt.y_err).shape != (len(model_y),):
            raise Violation("data-size", f"y_err has shape {np.asarray(opt.y_err).shape} for {len(model_y)} points")
        for name, arr, sn in zip(("x", "y", "y_err"), (x_in, y_in, err_in), snaps):
            if not unchanged(arr, sn):
                raise Violation(f"caller-array:later:{name}", f"the caller's constructor argument {name} changed after {op}")
        if (isinstance(bounds, np.ndarray) and not unchanged(bounds, bounds_snap)) or (not isinstance(bounds, np.ndarray) and repr(bounds) != bounds_snap[1]):
            raise Violation("caller-array:later:bounds", f"the caller's bounds ({bform}) changed after {op}: now {np.asarray(bounds).tolist()}")
    ctx.nontrivial(n_add >= 2 and n_prop >= 1)
    ctx.event(f"acq={case['acq']}")
    ctx.event(f"d={d}")
    ctx.event(f"adds={n_add}")
    ctx.event("x_form=" + case["x_form"])
    ctx.event("bounds_form=" + bform)
    ctx.event("kernel_form=" + kform)
    ctx.event("x_dtype=" + case.get("x_dtype", "float") + ",y_dtype=" + case.get("y_dtype", "float"))
    for op in case["ops"]:
        if op["op"] == "propose":
            ctx.event(f"propose={op['optimizer']}")
        else:
            ctx.event("add_form=" + op["form"])


SUBCHECKS = [
    Sub("values", lambda t: value_cases(), body_values, quick=6000, thorough=300000, shards_quick=6, shards_thorough=16,
        rule="|z| > 3"),
    Sub("gradients", lambda t: grad_cases(), body_gradients, quick=2000, thorough=40000, shards_quick=6, shards_thorough=16,
        rule="z < -3 or d >= 2"),
    Sub("history", lambda t: history_cases(), body_history, quick=120, thorough=1500, shards_quick=8, shards_thorough=16, weight=300,
        rule="a history with >= 2 adds and >= 1 proposal"),
]
