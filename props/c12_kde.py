"""C12 - GaussianKDE is a faithful, normalised Gaussian kernel-density estimate.

Oracle: the exact Gaussian KDE / its CDF by direct summation with the estimator's own bandwidth;
explicit truncation bounds derived from the documented 4h cut-off and region width < h:
|pdf - exact| <= 2.5e-3/(sqrt(2 pi) h), |cdf - exact| <= 3e-4; exact invariance under permutations
and scalar/array forms; covariance under positive affine maps for all three bandwidth modes.
"""
import warnings

import numpy as np
from hypothesis import strategies as st
from scipy.special import ndtr

from vlib import rngctl
from vlib.core import Sub, Violation, Inconclusive
from inference.pdf import GaussianKDE

EPS = np.finfo(float).eps
RULE = ("cases = sample family (normal, t2, bimodal, uniform, rounded-with-ties) x size 3..3000 x location (0, +-10, +-1e3, +-1e6 "
        "scale units) x scale 1e-6..1e6 x bandwidth mode (rule of thumb, user 0.02..20 x rule, cross-validated for n<=400); "
        "evaluation at dyadic region boundaries +-1 ulp, sample values, inside and up to 1e4 h outside; non-trivial = evaluation set "
        "has a region boundary and a point > 4h outside, and (ties or heavy tail or scale != 1)")
ASSUMPTIONS = ["non-degenerate samples: >= 3 points, >= 2 distinct values", "the sample itself is produced by a numpy generator seeded from the case"]
PDF_BOUND = 2.5e-3  # times 1/(sqrt(2 pi) h)
CDF_BOUND = 3e-4


@st.composite
def cases(draw, max_n=3000, cv=False):
    fam = draw(st.sampled_from(["normal", "t2", "bimodal", "uniform", "rounded", "counts"]))
    n = draw(st.one_of(st.integers(3, 12), st.integers(3, 200), st.integers(3, 400 if cv else max_n)))
    mode = "cv" if cv else draw(st.sampled_from(["rule", "rule", "user", "user", "user_wide"]))
    return {"seed": draw(st.integers(0, 2**31)), "family": fam, "n": n,
            "loc_units": draw(st.sampled_from([0.0, 0.0, 10.0, -10.0, 100.0, 1e3, -1e3, 1e6, -1e6])),
            "count_unit": draw(st.sampled_from([1, 1, 1, 2500])), "cv_subsample": draw(st.sampled_from([False, False, True])),
            "bw_type": draw(st.sampled_from([None, "uint8", "int8", "int16", "int64"])),          # (whole-number samples: the size of one count)
            "log_scale": draw(st.sampled_from([0.0, 0.0, draw(st.floats(-6, 6))])),
            "bw_mode": mode, "bw_log_factor": draw(st.floats(np.log10(0.02), np.log10(20))),
            "n_eval": draw(st.integers(1, 40)), "a_pow": draw(st.integers(-20, 20)),
            "ga": 10 ** draw(st.floats(-3, 3)), "gb_units": draw(st.floats(-100, 100))}


def make_sample(case):
    g = rngctl.rng(case["seed"], 1)
    n, fam = case["n"], case["family"]
    if fam == "normal":
        z = g.normal(size=n)
    elif fam == "t2":
        z = g.standard_t(2, size=n)
    elif fam == "bimodal":
        z = np.where(g.random(n) < 0.4, g.normal(-2.5, 0.5, n), g.normal(1.5, 1.0, n))
    elif fam == "uniform":
        z = g.uniform(-1.7, 1.7, n)
    elif fam == "counts":
        z = np.round(g.normal(size=n) * 3) * case.get("count_unit", 1)
    else:
        z = np.round(g.normal(size=n) * 2) / 2
    if np.unique(z).size < 2:
        z[0] += 1.0
    scale = 10.0 ** case["log_scale"] if fam != "counts" else 1.0     # whole numbers (which may be held in an integer array)
    return (case["loc_units"] + z) * scale, scale


def bandwidth_kwargs(case, sample):
    if case["bw_mode"] == "user":
        rule = 1.06 * np.std(sample) / sample.size**0.2
        bw = float(rule * 10 ** case["bw_log_factor"])
        if case["family"] == "counts" and case.get("bw_type") and 1 <= round(bw) <= np.iinfo(case["bw_type"]).max:
            return {"bandwidth": np.dtype(case["bw_type"]).type(round(bw))}      # a whole-number bandwidth read from an integer array
        return {"bandwidth": bw}
    if case["bw_mode"] == "user_wide":  # wider than the whole data range
        return {"bandwidth": float(np.ptp(sample) * 10 ** (0.75 * (case["bw_log_factor"] + 1.7)))}
    if case["bw_mode"] == "cv":
        if case.get("cv_subsample") and sample.size >= 8:
            # more data than the documented cap on the number of points used in the cross-validation: a sub-set is used
            return {"cross_validation": True, "max_cv_samples": int(sample.size // 2)}
        return {"cross_validation": True}
    return {}


def build(sample, kw):
    with warnings.catch_warnings():
        warnings.simplefilter("ignore")
        with np.errstate(all="ignore"):
            return GaussianKDE(sample, **kw)


def eval_points(case, sample, h):
    g = rngctl.rng(case["seed"], 2)
    lo, hi = sample.min(), sample.max()
    m = case["n_eval"]
    pts = []
    # dyadic region boundaries of [min, max] +- 1 ulp (covers whichever depth the estimator chose)
    for _ in range(m):
        k = int(g.integers(0, 15))
        j = int(g.integers(0, 2**k + 1))
        e = lo + (hi - lo) * j / 2**k
        pts += [e, np.nextafter(e, -np.inf), np.nextafter(e, np.inf)]
    edges = np.linspace(lo, hi, 2 ** int(g.integers(0, 12)) + 1)
    e = edges[int(g.integers(0, edges.size))]
    pts += [e, np.nextafter(e, -np.inf), np.nextafter(e, np.inf)]
    pts += list(g.uniform(lo, hi, m))
    pts += list(g.choice(sample, size=min(m, sample.size)))
    for mult in (3.0, 4.0, 4.5, 10.0, 1e2, 1e4):
        pts += [lo - mult * h * g.uniform(0.9, 1.1), hi + mult * h * g.uniform(0.9, 1.1)]
    return np.array(pts, dtype=float)


def exact_pdf(x, sample, h):
    out = np.zeros(x.size)
    for i in range(0, x.size, 64):
        z = (x[i:i + 64, None] - sample[None, :]) / h
        out[i:i + 64] = np.exp(-0.5 * z * z).sum(axis=1)
    return out / (sample.size * h * np.sqrt(2 * np.pi))


def exact_cdf(x, sample, h):
    out = np.zeros(x.size)
    for i in range(0, x.size, 64):
        out[i:i + 64] = ndtr((x[i:i + 64, None] - sample[None, :]) / h).sum(axis=1)
    return out / sample.size


def classify(case, sample):
    ties = np.unique(sample).size < sample.size
    return ties or case["family"] in ("t2",) or case["log_scale"] != 0.0


def body_faithful(case, ctx):
    sample, scale = make_sample(case)
    kw = bandwidth_kwargs(case, sample)
    tag = case["bw_mode"]
    kde = build(sample.copy(), kw)
    h = float(kde.h)
    if not (np.isfinite(h) and h > 0):
        raise Violation(f"bandwidth:{tag}", f"bandwidth {h!r}")
    x = eval_points(case, sample, h)
    with np.errstate(all="ignore"):
        p = np.asarray(kde(x.copy()), dtype=float)
        c = np.asarray(kde.cdf(x.copy()), dtype=float)
    if p.shape != x.shape or c.shape != x.shape:
        raise Violation(f"shape:{tag}", f"pdf {p.shape}, cdf {c.shape} for {x.shape} evaluation points")
    # "any evaluation points": none at all (an empty selection), and a two-dimensional array of them
    with np.errstate(all="ignore"):
        pe, ce = np.asarray(kde(x[:0].copy())), np.asarray(kde.cdf(x[:0].copy()))
    if pe.size != 0 or ce.size != 0:
        raise Violation(f"shape:{tag}", f"an empty array of evaluation points gives pdf {pe.shape}, cdf {ce.shape}")
    if x.size >= 4:
        k2 = 2 * (x.size // 2)
        with np.errstate(all="ignore"):
            p2, c2 = np.asarray(kde(x[:k2].reshape(2, -1).copy()), dtype=float), np.asarray(kde.cdf(x[:k2].reshape(2, -1).copy()), dtype=float)
        if p2.shape != (2, k2 // 2) or c2.shape != (2, k2 // 2) or not np.array_equal(p2.ravel(), p[:k2]) or not np.array_equal(c2.ravel(), c[:k2]):
            raise Violation(f"shape:{tag}", f"a (2, {k2 // 2}) array of evaluation points gives pdf {p2.shape}, cdf {c2.shape} / other values than the same points in one dimension")
    if np.any(p < 0) or not np.all(np.isfinite(p)):
        raise Violation(f"pdf-negative:{tag}", "pdf negative or not finite")
    ep, ec = exact_pdf(x, sample, h), exact_cdf(x, sample, h)
    unit = 1.0 / (np.sqrt(2 * np.pi) * h)
    # rounding of (x - s)/h at large |location|/h adds a relative error ~ eps*|x|/h * z to each kernel
    round_rel = 64 * EPS * (np.abs(x).max() + np.abs(sample).max()) / h
    tol_p = PDF_BOUND * unit + (1e-12 + round_rel) * ep
    err_p = np.abs(p - ep)
    i = int(np.argmax(err_p / tol_p))
    ctx.ratio("pdf", err_p[i] / tol_p[i], 1.0)
    if err_p[i] > tol_p[i]:
        raise Violation(f"pdf:{tag}", f"{case['family']} n={sample.size} h={h:.4g}: pdf({x[i]!r}) = {p[i]!r}, exact KDE {ep[i]!r}; error {err_p[i] * np.sqrt(2 * np.pi) * h:.3g}/(sqrt(2pi)h) exceeds the truncation bound {PDF_BOUND}")
    tol_c = CDF_BOUND + 1e-12 + round_rel
    err_c = np.abs(c - ec)
    i = int(np.argmax(err_c))
    ctx.ratio("cdf", err_c[i], tol_c)
    if err_c[i] > tol_c or not np.all(np.isfinite(c)):
        raise Violation(f"cdf:{tag}", f"{case['family']} n={sample.size} h={h:.4g}: cdf({x[i]!r}) = {c[i]!r}, exact {ec[i]!r} (bound {CDF_BOUND})")
    order = np.argsort(x, kind="stable")
    dec = np.diff(c[order])
    if dec.size and dec.min() < -tol_c:
        raise Violation(f"cdf-monotone:{tag}", f"cdf decreases by {-dec.min():.3g} between sorted evaluation points")
    far_lo, far_hi = sample.min() - 1e4 * h, sample.max() + 1e4 * h
    with np.errstate(all="ignore"):
        c0, c1 = float(kde.cdf(far_lo)), float(kde.cdf(far_hi))
    if abs(c0) > 1e-12 or abs(c1 - 1) > 1e-12:
        raise Violation(f"cdf-limits:{tag}", f"cdf(-far) = {c0!r}, cdf(+far) = {c1!r}")
    # scalar input = array entry; order of evaluation points irrelevant
    j = int(rngctl.rng(case["seed"], 3).integers(0, x.size))
    with np.errstate(all="ignore"):
        if float(kde(float(x[j]))) != p[j] or float(kde.cdf(float(x[j]))) != c[j]:
            raise Violation(f"scalar:{tag}", f"scalar evaluation at {x[j]!r} differs from the array entry")
        perm = rngctl.rng(case["seed"], 4).permutation(x.size)
        if not (np.array_equal(np.asarray(kde(x[perm])), p[perm]) and np.array_equal(np.asarray(kde.cdf(x[perm])), c[perm])):
            raise Violation(f"eval-order:{tag}", "result depends on the order of the evaluation points")
    # whole-number evaluation points held as integers (array, list of Python ints, int scalar) are the same points
    xi = np.unique(np.round(x[np.abs(x) < 2**31]))
    if xi.size:
        xi = xi[:: max(1, xi.size // 12)]
        epi, eci = exact_pdf(xi, sample, h), exact_cdf(xi, sample, h)
        rr = 64 * EPS * (np.abs(xi).max() + np.abs(sample).max()) / h
        forms = (("int64 array", xi.astype(np.int64)), ("list of ints", [int(v) for v in xi]), ("int scalar", int(xi[xi.size // 2])))
        for name, arg in forms:
            with np.errstate(all="ignore"):
                pi, ci = np.atleast_1d(np.asarray(kde(arg), dtype=float)), np.atleast_1d(np.asarray(kde.cdf(arg), dtype=float))
            sel = slice(None) if name != "int scalar" else slice(xi.size // 2, xi.size // 2 + 1)
            if pi.shape != epi[sel].shape or ci.shape != eci[sel].shape:
                raise Violation(f"int-points-shape:{tag}", f"{name}: pdf {pi.shape}, cdf {ci.shape} for {epi[sel].shape} points")
            bad_p = np.abs(pi - epi[sel]) > PDF_BOUND * unit + (1e-12 + rr) * epi[sel]
            bad_c = np.abs(ci - eci[sel]) > CDF_BOUND + 1e-12 + rr
            if np.any(bad_p) or np.any(bad_c):
                k = int(np.argmax(bad_p | bad_c))
                raise Violation(f"int-points:{tag}", f"{case['family']} n={sample.size} h={h:.4g}: evaluation at whole-number points given as {name}: pdf({xi[sel][k]!r}) = {pi[k]!r} (exact {epi[sel][k]!r}), "
                                                     f"cdf = {ci[k]!r} (exact {eci[sel][k]!r})")
        ctx.event("integer-eval-points")
    # a whole-number sample held in an integer array / list of ints is the same sample
    if case["family"] == "counts" and np.all(sample == np.round(sample)):
        alts = [("list of ints", [int(v) for v in sample])]
        for dt in ("int64", "int32", "int16", "int8", "uint8", "uint16", "uint32"):
            with np.errstate(all="ignore"):
                a_ = sample.astype(dt)
            if np.array_equal(a_.astype(float), sample):          # (only types that hold exactly these numbers)
                alts.append((dt + " array", a_))
        for name, alt in alts:
            kde_i = build(alt, kw)
            with np.errstate(all="ignore"):
                pi_, ci_ = np.asarray(kde_i(x.copy()), dtype=float), np.asarray(kde_i.cdf(x.copy()), dtype=float)
                # ... and evaluated at whole-number points held in the same type
                if isinstance(alt, np.ndarray) and xi.size:
                    xq = xi.astype(alt.dtype)
                    if np.array_equal(xq.astype(float), xi):
                        pq, cq = np.atleast_1d(np.asarray(kde_i(xq), dtype=float)), np.atleast_1d(np.asarray(kde_i.cdf(xq), dtype=float))
                        pf, cf = np.atleast_1d(np.asarray(kde(xi.copy()), dtype=float)), np.atleast_1d(np.asarray(kde.cdf(xi.copy()), dtype=float))
                        if pq.shape != pf.shape or np.any(np.abs(pq - pf) > 1e-12 * unit + 1e-9 * pf) or np.any(np.abs(cq - cf) > 1e-9):
                            k = int(np.argmax(np.abs(pq - pf))) if pq.shape == pf.shape else 0
                            raise Violation(f"int-sample:{tag}", f"n={sample.size}: sample and evaluation points both held as {name}: pdf({xi[k]!r}) = {pq.ravel()[k]!r}, "
                                                                 f"cdf = {cq.ravel()[k]!r}; from float64 arrays of the same numbers {pf[k]!r}, {cf[k]!r}")
                        ctx.event("integer sample and points: " + str(alt.dtype))
            if abs(float(kde_i.h) - h) > 1e-12 * h or np.any(np.abs(pi_ - p) > 1e-12 * unit + 1e-9 * p) or np.any(np.abs(ci_ - c) > 1e-9):
                k = int(np.argmax(np.abs(pi_ - p)))
                raise Violation(f"int-sample:{tag}", f"n={sample.size}: the estimate built from the sample as {name} (h={float(kde_i.h)!r}, pdf({x[k]!r})={pi_[k]!r}) differs from "
                                                     f"the one built from the same numbers as float64 (h={h!r}, pdf={p[k]!r})")
        ctx.event("integer-sample")
    # order of the sample irrelevant
    kde2 = build(sample[rngctl.rng(case["seed"], 5).permutation(sample.size)], kw)
    with np.errstate(all="ignore"):
        if float(kde2.h) != h or not np.array_equal(np.asarray(kde2(x.copy())), p) or not np.array_equal(np.asarray(kde2.cdf(x.copy())), c):
            raise Violation(f"sample-order:{tag}", "result depends on the order of the sample")
    ctx.nontrivial(classify(case, sample))
    ctx.event("family=" + case["family"])
    ctx.event("bw=" + tag)
    ctx.event("n<=12" if sample.size <= 12 else ("n<=200" if sample.size <= 200 else "n>200"))
    ctx.event("loc=%g" % abs(case["loc_units"]))
    ctx.event("scale=1" if case["log_scale"] == 0 else "scale!=1")
    if tag in ("user", "user_wide"):
        ctx.event("h>range" if h > np.ptp(sample) else "h<=range")


def body_affine(case, ctx):
    sample, scale = make_sample(case)
    kw = bandwidth_kwargs(case, sample)
    tag = case["bw_mode"]
    kde = build(sample.copy(), kw)
    h = float(kde.h)
    x = eval_points(case, sample, h)
    with np.errstate(all="ignore"):
        p, c = np.asarray(kde(x.copy()), dtype=float), np.asarray(kde.cdf(x.copy()), dtype=float)
    # exact: scaling by a power of two
    a = 2.0 ** case["a_pow"]
    kw2 = dict(kw)
    if "bandwidth" in kw2:
        kw2["bandwidth"] = kw2["bandwidth"] * a
    k2 = build(sample * a, kw2)
    if tag != "cv":
        ok = ((x * a) / a == x) & ((np.abs(x) > 1e-290) | (x == 0))  # denormal neighbours of 0 do not scale exactly
        with np.errstate(all="ignore"):
            p2, c2 = np.asarray(k2(x * a), dtype=float) * a, np.asarray(k2.cdf(x * a), dtype=float)
        if float(k2.h) != h * a or not np.array_equal(p2[ok], p[ok]) or not np.array_equal(c2[ok], c[ok]):
            raise Violation(f"scale-pow2:{tag}", f"scaling the data by 2^{case['a_pow']}: h {k2.h!r} vs {h * a!r}, max pdf diff {np.max(np.abs(p2 - p)):.3g}, max cdf diff {np.max(np.abs(c2 - c)):.3g}")
    # generic positive affine map
    ga, gb = case["ga"], case["gb_units"] * scale
    kw3 = dict(kw)
    if "bandwidth" in kw3:
        kw3["bandwidth"] = kw3["bandwidth"] * ga
    k3 = build(sample * ga + gb, kw3)
    h3 = float(k3.h)
    rel_h = abs(h3 / (ga * h) - 1)
    tol_h = 1e-9 + 1e3 * EPS * (abs(gb) / (ga * np.std(sample)) + abs(case["loc_units"]) + 1)
    if tag == "cv":
        # the grid search can flip between neighbouring grid points under rounding: allow one refinement step (0.8%)
        if rel_h > 0.02:
            raise Violation("affine-bandwidth:cv", f"cross-validated bandwidth is not covariant: h(a s + b) = {h3!r}, a h(s) = {ga * h!r}")
        if rel_h > tol_h:
            raise Inconclusive("cv grid flipped to a neighbouring point under rounding")
    elif rel_h > tol_h:
        raise Violation(f"affine-bandwidth:{tag}", f"h(a s + b) = {h3!r}, a h(s) = {ga * h!r}")
    with np.errstate(all="ignore"):
        p3 = np.asarray(k3(x * ga + gb), dtype=float) * ga
        c3 = np.asarray(k3.cdf(x * ga + gb), dtype=float)
    unit = 1.0 / (np.sqrt(2 * np.pi) * h)
    round_rel = 256 * EPS * (np.abs(x).max() * ga + abs(gb) + np.abs(sample).max() * ga) / (ga * h) + 50 * rel_h + 1e-9
    tol_p = 2 * PDF_BOUND * unit + round_rel * (p + unit * 1e-3)
    if np.max(np.abs(p3 - p) / tol_p) > 1:
        i = int(np.argmax(np.abs(p3 - p) / tol_p))
        raise Violation(f"affine-pdf:{tag}", f"a={ga:.4g}, b={gb:.4g}: a*kde'(a x + b) = {p3[i]!r} vs kde(x) = {p[i]!r} at x = {x[i]!r}")
    if np.max(np.abs(c3 - c)) > 2 * CDF_BOUND + round_rel:
        raise Violation(f"affine-cdf:{tag}", f"a={ga:.4g}, b={gb:.4g}: cdf differs by {np.max(np.abs(c3 - c)):.3g}")
    ctx.nontrivial(classify(case, sample))
    ctx.event("bw=" + tag)


SUBCHECKS = [
    Sub("faithful", lambda t: cases(3000 if t == "thorough" else 600), body_faithful, quick=2400, thorough=40000,
        shards_quick=10, shards_thorough=16, rule="ties or heavy tail or scale != 1 (region boundaries and far-outside points are in every evaluation set)"),
    Sub("faithful-cv", lambda t: cases(cv=True), body_faithful, quick=96, thorough=2000, shards_quick=8, shards_thorough=16, weight=30,
        rule="cross-validated bandwidth; ties or heavy tail or scale != 1"),
    Sub("affine", lambda t: cases(3000 if t == "thorough" else 400), body_affine, quick=1200, thorough=25000,
        shards_quick=8, shards_thorough=16, rule="ties or heavy tail or scale != 1"),
    Sub("affine-cv", lambda t: cases(cv=True), body_affine, quick=64, thorough=1500, shards_quick=8, shards_thorough=16, weight=60,
        rule="cross-validated bandwidth; ties or heavy tail or scale != 1"),
]
