"""C02 - GP regression returns the exact Gaussian-process posterior.

Oracle: reference kernels / means from the documented formulas, posterior by 40-digit mpmath LU
(n <= 10) or scipy dense solve, tolerance scaled with the condition number of the matrix actually
solved; plus the internal relations of the statement (three call forms agree, 0 <= var <= prior var,
training-order invariance, y_err == diag y_cov).
"""
import warnings

import numpy as np
import mpmath as mp
import scipy.linalg as sla
from hypothesis import strategies as st  # noqa: F401

from vlib import rngctl  # noqa: F401
from vlib import refkernels as rk, gpcases as gc
from vlib.core import Sub, Violation, Inconclusive
from inference.gp import GpRegressor

mp.mp.dps = 40
EPS = np.finfo(float).eps
RULE = ("cases = GP problems: n in 1..25 training points in d = 1..3 (free / grid / clustered / duplicated), kernel from the "
        "grammar of C10, Constant/Linear/Quadratic mean, noise none / y_err / diagonal y_cov / full SPD y_cov, 1..8 query points "
        "inside, at training points and far outside, query given as array / list / single 1-D point; non-trivial = n >= 3 and "
        "(composite or change-point kernel, or non-constant mean, or d >= 2, or full y_cov) with condition number <= 1e10")
ASSUMPTIONS = ["tolerance |impl - ref| <= (1e-9 + 100*kappa*eps) * scale with kappa the 2-norm condition number of K_xx + S",
               "cases with kappa > 1e10 are executed for crashes only (a LinAlgError from the Cholesky factorisation is accepted there)"]


def permute_theta(spec, theta, perm, n, d):
    """hetero-noise parameters follow their data points under a permutation of the training rows"""
    theta = np.array(theta, dtype=float)
    out = theta.copy()

    def walk(s, off):
        k = s["k"]
        if k == "Hetero":
            out[off:off + n] = theta[off:off + n][perm]
            return off + n
        if k in ("SE", "RQ", "White"):
            return off + rk.n_params(s, n, d)
        for p in s["parts"]:
            off = walk(p, off)
        if k == "CP":
            off += 2 * (len(s["parts"]) - 1)
        return off

    walk(spec, 0)
    return out


def reference(case, X, y, S, spec, th_cov, th_mean, Q, use_mp=True):
    n = X.shape[0]
    Kxx = rk.ref_build(spec, X, th_cov) + S
    Kqx = rk.ref_call(spec, Q, X, th_cov, n)
    Kqq = rk.ref_call(spec, Q, Q, th_cov, n)
    mx = rk.ref_mean(case["mean"], X, X, th_mean)
    mq = rk.ref_mean(case["mean"], X, Q, th_mean)
    with np.errstate(all="ignore"):
        kappa = np.linalg.cond(Kxx)
    if not np.isfinite(kappa) or kappa > 1e10:
        return None, kappa
    if use_mp and n <= 10:
        A = mp.matrix(Kxx.tolist())
        r = mp.matrix((y - mx).tolist())
        alpha = mp.lu_solve(A, r)
        B = mp.matrix(Kqx.tolist())
        mu = np.array([float(v) for v in (B * alpha)]) + mq
        m = Kqx.shape[0]
        cols = [mp.lu_solve(A, mp.matrix(Kqx[j].tolist())) for j in range(m)]  # K^-1 k(x, q_j)
        cov = np.array([[float(mp.mpf(Kqq[i, j]) - mp.fsum(mp.mpf(Kqx[i, k]) * cols[j][k] for k in range(n)))
                         for j in range(m)] for i in range(m)])
        alpha = np.array([float(v) for v in alpha])
    else:
        alpha = sla.solve(Kxx, y - mx, assume_a="sym")
        mu = Kqx @ alpha + mq
        cov = Kqq - Kqx @ sla.solve(Kxx, Kqx.T, assume_a="sym")
    scale_mu = np.abs(mq) + np.abs(Kqx) @ np.abs(alpha) + 1e-300
    # the mean function is evaluated at coordinates centred on the training centroid: each carries eps*|x| times the slope /
    # curvature coefficients, at the query directly and at the training points through K_qx K^-1
    amp = 1.0 + np.abs(Kqx) @ np.abs(np.linalg.inv(Kxx)) @ np.ones(n)
    scale_mu = scale_mu + 1e9 * gc.mean_roundoff(case["mean"], th_mean, X, Q) * amp
    return {"mu": mu, "cov": cov, "Kqq": Kqq, "scale_mu": scale_mu, "alpha": alpha}, kappa


def fit(X, y, noise_kw, spec, mean_kind, theta_all, keys, preuse=None):
    cov = rk.build_kernel(spec)
    mean = rk.build_mean(mean_kind)
    with warnings.catch_warnings():
        warnings.simplefilter("ignore")
        with np.errstate(all="ignore"):
            if preuse:
                # the kernel and mean objects served an earlier regressor - since discarded - on data with another number of points
                # and of spatial dimensions (objects are handed on like this by GpOptimiser, and by users fitting one model family
                # to several data sets in turn)
                g = np.random.Generator(np.random.PCG64(int(preuse["seed"])))
                n_e, d_e = max(2, X.shape[0] + preuse["dn"]), max(1, X.shape[1] + preuse["dd"])
                if not (rk.has(spec, "CP") and d_e <= max_cp_axis(spec)):
                    try:
                        GpRegressor(g.normal(size=(n_e, d_e)), g.normal(size=n_e), kernel=cov, mean=mean,
                                    hyperpars=np.zeros(rk.mean_n_params(mean_kind, d_e) + rk.n_params(spec, n_e, d_e)))
                    except np.linalg.LinAlgError:
                        pass
            return GpRegressor(X, y, hyperpars=theta_all, kernel=cov, mean=mean, **noise_kw)


def max_cp_axis(spec):
    return max([spec.get("axis", 0) if spec["k"] == "CP" else 0] + [max_cp_axis(q) for q in spec.get("parts", [])])


def nontrivial(case, kappa):
    rich = (case["kernel"]["k"] in ("Sum", "CP") or case["mean"] != "Constant" or case["d"] >= 2
            or case["noise"] == "y_cov_full")
    return case["n"] >= 3 and rich and kappa <= 1e10


def query_form(case, Q):
    f = case["q_form"]
    if f == "list":
        return [list(map(float, q)) for q in Q]
    if f == "single1d":
        return Q[0].copy(), Q[:1]
    return Q.copy()


def cls_of(case):
    spec = case["kernel"]
    k = "cp" if rk.has(spec, "CP") else ("sum" if spec["k"] == "Sum" else spec["k"])
    if rk.has(spec, "Hetero"):
        k += "+hetero"
    return k


def body_posterior(case, ctx):
    X, y, xs, ys = gc.arrays(case)
    d, n = case["d"], case["n"]
    spec = case["kernel"]
    noise_kw, S = gc.noise_matrix(case, ys)
    th_cov = gc.theta_from_unit(spec, case, X, ys)
    th_mean = gc.mean_theta(case, X, y, ys)[: rk.mean_n_params(case["mean"], d)]
    theta_all = np.concatenate([th_mean, th_cov])
    Q = gc.queries(case, X, xs)
    qf = query_form(case, Q)
    if isinstance(qf, tuple):
        qf, Q = qf
    ref, kappa = reference(case, X, y, S, spec, th_cov, th_mean, Q)
    tag = cls_of(case)
    try:
        gp = fit(X.copy(), y.copy(), noise_kw, spec, case["mean"], theta_all, tag, preuse=case.get("preuse"))
        with np.errstate(all="ignore"):
            mu_c, sig_c = gp(qf)
            mu_b, cov_b = gp.build_posterior(qf)
            mu_m = gp.build_posterior(qf, mean_only=True)
    except np.linalg.LinAlgError:
        if ref is None:
            ctx.event("illcond-linalgerror")
            raise Inconclusive("ill-conditioned (kappa > 1e10): Cholesky failed")
        raise Violation(f"crash:LinAlgError:{tag}", f"Cholesky failed although kappa = {kappa:.3g}")
    mu_c, sig_c, mu_b, mu_m = (np.asarray(a, dtype=float) for a in (mu_c, sig_c, mu_b, mu_m))
    cov_b = np.asarray(cov_b, dtype=float)
    m = Q.shape[0]
    if mu_c.shape != (m,) or sig_c.shape != (m,) or mu_b.shape != (m,) or cov_b.shape != (m, m) or mu_m.shape != (m,):
        raise Violation(f"shape:{tag}", f"shapes call {mu_c.shape}/{sig_c.shape}, build_posterior {mu_b.shape}/{cov_b.shape}, mean_only {mu_m.shape} for {m} queries")
    ctx.event("kappa>1e10" if ref is None else ("kappa>1e6" if kappa > 1e6 else "kappa<=1e6"))
    ctx.event(f"noise={case['noise']}")
    ctx.event(f"mean={case['mean']}")
    ctx.event(f"q_form={case['q_form']}")
    ctx.event("kernel=" + ("CP" if rk.has(spec, "CP") else spec["k"]))
    if ref is None:
        if not (np.all(np.isfinite(mu_b)) or True):
            pass
        return
    f = 1e-9 + 100 * kappa * EPS
    tol_mu = f * ref["scale_mu"]
    prior_var = np.maximum(np.diag(ref["Kqq"]), 1e-300)
    tol_var = f * prior_var
    # closed form
    e_mu = np.max(np.abs(mu_b - ref["mu"]) / tol_mu)
    ctx.ratio("mean", e_mu, 1.0)
    if not np.all(np.isfinite(mu_b)) or e_mu > 1:
        i = int(np.argmax(np.abs(mu_b - ref["mu"]) / tol_mu))
        raise Violation(f"mean:{tag}", f"{rk.describe(spec)} n={n} d={d}: posterior mean {mu_b[i]!r} vs closed form {ref['mu'][i]!r} (tol {tol_mu[i]:.3g}, kappa {kappa:.3g})")
    tol_cov = f * np.sqrt(np.outer(prior_var, prior_var))
    e_cov = np.max(np.abs(cov_b - ref["cov"]) / tol_cov)
    ctx.ratio("covariance", e_cov, 1.0)
    if not np.all(np.isfinite(cov_b)) or e_cov > 1:
        i, j = np.unravel_index(int(np.argmax(np.abs(cov_b - ref["cov"]) / tol_cov)), cov_b.shape)
        raise Violation(f"covariance:{tag}", f"{rk.describe(spec)} n={n} d={d}: posterior cov[{i},{j}] {cov_b[i, j]!r} vs closed form {ref['cov'][i, j]!r} (tol {tol_cov[i, j]:.3g})")
    # the three call forms agree
    if np.max(np.abs(mu_c - mu_b) / tol_mu) > 2 or np.max(np.abs(mu_m - mu_b) / tol_mu) > 2:
        raise Violation(f"forms-mean:{tag}", f"__call__ mean {mu_c}, build_posterior {mu_b}, mean_only {mu_m}")
    var_b = np.diag(cov_b)
    if np.max(np.abs(sig_c**2 - np.abs(var_b)) / tol_var) > 2:
        raise Violation(f"forms-variance:{tag}", f"__call__ sigma^2 {sig_c**2} vs build_posterior diagonal {var_b}")
    # 0 <= predictive variance <= prior variance
    if np.any(var_b < -tol_var) or np.any(var_b > prior_var + tol_var):
        raise Violation(f"variance-range:{tag}", f"predictive variance {var_b} outside [0, prior variance {prior_var}]")
    if np.max(np.abs(cov_b - cov_b.T) / tol_cov) > 2:
        raise Violation(f"covariance-symmetry:{tag}", "joint posterior covariance not symmetric")
    ctx.nontrivial(nontrivial(case, kappa))


def body_relations(case, ctx):
    """training-order invariance and y_err == diag(y_cov)"""
    X, y, xs, ys = gc.arrays(case)
    d, n = case["d"], case["n"]
    spec = case["kernel"]
    noise_kw, S = gc.noise_matrix(case, ys)
    th_cov = gc.theta_from_unit(spec, case, X, ys)
    th_mean = gc.mean_theta(case, X, y, ys)[: rk.mean_n_params(case["mean"], d)]
    Q = gc.queries(case, X, xs)
    tag = cls_of(case)
    with np.errstate(all="ignore"):
        kappa = np.linalg.cond(rk.ref_build(spec, X, th_cov) + S)
    if not np.isfinite(kappa) or kappa > 1e10:
        raise Inconclusive("ill-conditioned (kappa > 1e10)")
    gp = fit(X.copy(), y.copy(), noise_kw, spec, case["mean"], np.concatenate([th_mean, th_cov]), tag)
    with np.errstate(all="ignore"):
        mu, cov = gp.build_posterior(Q)
    # permutation of the training points
    perm = rngctl.rng(case["seed"]).permutation(n)
    kw2 = {}
    if "y_err" in noise_kw:
        kw2["y_err"] = noise_kw["y_err"][perm]
    if "y_cov" in noise_kw:
        kw2["y_cov"] = noise_kw["y_cov"][np.ix_(perm, perm)]
    th_cov_p = permute_theta(spec, th_cov, perm, n, d)
    gp2 = fit(X[perm].copy(), y[perm].copy(), kw2, spec, case["mean"], np.concatenate([th_mean, th_cov_p]), tag)
    with np.errstate(all="ignore"):
        mu2, cov2 = gp2.build_posterior(Q)
    f = 1e-9 + 100 * kappa * EPS
    mx = rk.ref_mean(case["mean"], X, X, th_mean)
    Kqx = rk.ref_call(spec, Q, X, th_cov, n)
    scale_mu = np.abs(rk.ref_mean(case["mean"], X, Q, th_mean)) + np.abs(Kqx) @ np.abs(gp.alpha) + 1e-300
    scale_mu = scale_mu + 1e9 * gc.mean_roundoff(case["mean"], th_mean, X, Q) * (1.0 + np.abs(Kqx) @ np.abs(np.linalg.inv(rk.ref_build(spec, X, th_cov) + S)) @ np.ones(n))
    prior_var = np.maximum(np.diag(rk.ref_call(spec, Q, Q, th_cov, n)), 1e-300)
    r1 = np.max(np.abs(mu - mu2) / (f * scale_mu))
    r2 = np.max(np.abs(cov - cov2) / (f * np.sqrt(np.outer(prior_var, prior_var))))
    ctx.ratio("permutation", max(r1, r2), 2.0)
    if max(r1, r2) > 2:
        raise Violation(f"permutation:{tag}", f"{rk.describe(spec)}: prediction changes when the training points are reordered (mean ratio {r1:.3g}, cov ratio {r2:.3g})")
    # y_err as standard deviations == equivalent diagonal covariance
    if case["noise"] == "y_err":
        gp3 = fit(X.copy(), y.copy(), {"y_cov": np.diag(noise_kw["y_err"] ** 2)}, spec, case["mean"],
                  np.concatenate([th_mean, th_cov]), tag)
        with np.errstate(all="ignore"):
            mu3, cov3 = gp3.build_posterior(Q)
        if not (np.array_equal(mu3, mu) and np.array_equal(cov3, cov)):
            raise Violation(f"yerr-vs-ycov:{tag}", f"y_err and diag y_cov give different posteriors: max mean diff {np.max(np.abs(mu3 - mu)):.3g}")
        ctx.event("yerr-vs-ycov")
    ctx.event("hetero-permuted" if rk.has(spec, "Hetero") else "plain")
    ctx.nontrivial(nontrivial(case, kappa))


# ------------------------------------------------------------------ histories on one regressor
@st.composite
def history_cases(draw):
    case = draw(gc.gp_problems(max_n=12, max_m=3, min_n=2))
    d, n = case["d"], case["n"]
    case["q_form"] = "array"
    sets = [case["queries"]]
    for _ in range(draw(st.integers(1, 2))):
        q = []
        for _ in range(draw(st.sampled_from([len(case["queries"]), len(case["queries"]), draw(st.integers(1, 4))]))):
            kind = draw(st.sampled_from(["inside", "train", "outside"]))
            q.append({"kind": "train", "i": draw(st.integers(0, n - 1))} if kind == "train" else
                     {"kind": kind, "u": [draw(gc.unit if kind == "inside" else st.floats(-3, 4)) for _ in range(d)]})
        sets.append(q)
    case["query_sets"] = sets
    case["alt_theta_u"] = [draw(gc.unit) for _ in case["theta_u"]]
    case["alt_mean_u"] = [draw(gc.unit) for _ in case["mean_u"]]
    ops = []
    for _ in range(draw(st.integers(2, 8))):
        if draw(st.integers(0, 3)) == 0:
            # ("reused-after": the caller goes on using the array it passed - e.g. fills it with the next vector to try - while the
            # regressor keeps answering for the vector it was given)
            ops.append({"op": "switch", "theta": draw(st.integers(0, 1)), "how": draw(st.sampled_from(["fresh", "shared", "reused-after", "failing", "failing"]))})
        else:
            ops.append({"op": draw(st.sampled_from(["call", "posterior", "mean"])), "set": draw(st.integers(0, len(sets) - 1)),
                        "how": draw(st.sampled_from(["fresh", "shared", "shared"]))})
    case["ops"] = ops
    return case


def body_history(case, ctx):
    """a regressor is long-lived: every prediction equals the closed form for the hyper-parameters it holds *now* at the query points
    passed *in that call*, whatever was asked before and however the caller re-uses its query / hyper-parameter arrays"""
    X, y, xs, ys = gc.arrays(case)
    d, n = case["d"], case["n"]
    spec = case["kernel"]
    noise_kw, S = gc.noise_matrix(case, ys)
    thetas = []
    for tu, mu_ in ((case["theta_u"], case["mean_u"]), (case["alt_theta_u"], case["alt_mean_u"])):
        sub = dict(case)
        sub["mean_u"] = mu_
        thetas.append((gc.mean_theta(sub, X, y, ys)[: rk.mean_n_params(case["mean"], d)], gc.theta_from_unit(spec, case, X, ys, theta_u=tu)))
    Qs = []
    for qs in case["query_sets"]:
        sub = dict(case)
        sub["queries"] = qs
        Qs.append(gc.queries(sub, X, xs))
    refs = {}
    for t, (th_mean, th_cov) in enumerate(thetas):
        for k, Q in enumerate(Qs):
            ref, kappa = reference(case, X, y, S, spec, th_cov, th_mean, Q, use_mp=False)
            if ref is None or kappa > 1e8:
                raise Inconclusive("ill-conditioned (kappa > 1e8)")
            refs[t, k] = (ref, kappa)
    tag = cls_of(case)
    try:
        gp = fit(X.copy(), y.copy(), noise_kw, spec, case["mean"], np.concatenate(thetas[0]), tag)
    except np.linalg.LinAlgError:
        raise Inconclusive("Cholesky failed")
    held = 0
    tbuf = np.concatenate(thetas[0]).copy()
    qbufs = {}
    switched = reused = 0
    for step, op in enumerate(case["ops"]):
        with np.errstate(all="ignore"), warnings.catch_warnings():
            warnings.simplefilter("ignore")
            if op["op"] == "switch" and op.get("how") == "failing":
                # a vector the regressor cannot take (log-amplitude -400: the data covariance underflows to zero and has no Cholesky
                # factor): the call raises, and the regressor goes on answering for the vector it held before
                bad = np.concatenate(thetas[held]).copy()
                nm = len(thetas[held][0])
                for j, role in enumerate(rk.param_roles(spec, n, d)):
                    if role in ("amp", "noise"):
                        bad[nm + j] = -400.0
                if case["noise"] == "none":
                    try:
                        gp.set_hyperparameters(bad)
                    except (np.linalg.LinAlgError, ValueError):
                        ctx.event("a set_hyperparameters call that raised")
                    else:
                        gp.set_hyperparameters(np.concatenate(thetas[held]).copy())      # (it was taken after all: back to the held vector)
                continue
            if op["op"] == "switch":
                new = np.concatenate(thetas[op["theta"]])
                if op["how"] == "shared":
                    tbuf[:] = new
                    arg = tbuf
                else:
                    arg = new.copy()
                try:
                    gp.set_hyperparameters(arg)
                except np.linalg.LinAlgError:
                    raise Inconclusive("Cholesky failed")
                if op["how"] == "reused-after":
                    arg += 1.5
                    ctx.event("caller changed its hyper-parameter array after handing it over")
                switched += held != op["theta"]
                held = op["theta"]
                continue
            Q = Qs[op["set"]]
            if op["how"] == "shared":
                buf = qbufs.get(Q.shape)
                if buf is None:
                    buf = qbufs[Q.shape] = Q.copy()
                else:
                    reused += not np.array_equal(buf, Q)
                    buf[:] = Q
                arg = buf
            else:
                arg = Q.copy()
            ref, kappa = refs[held, op["set"]]
            f = 1e-8 + 1000 * kappa * EPS
            tol_mu = f * ref["scale_mu"]
            prior_var = np.maximum(np.diag(ref["Kqq"]), 1e-300)
            where = f"call {step} ({op['op']} at query set {op['set']} passed as a {op['how']} array, hyper-parameter vector {held} held) {rk.describe(spec)} n={n} d={d}"
            if op["op"] == "call":
                mu, sig = (np.asarray(a, dtype=float) for a in gp(arg))
                var = sig**2
                ref_var = np.diag(ref["cov"])
            elif op["op"] == "posterior":
                mu, cov = (np.asarray(a, dtype=float) for a in gp.build_posterior(arg))
                var, ref_var = cov, ref["cov"]
            else:
                mu = np.asarray(gp.build_posterior(arg, mean_only=True), dtype=float)
                var = ref_var = None
        if mu.shape != (Q.shape[0],):
            raise Violation(f"history-shape:{tag}", f"{where}: mean shape {mu.shape} for {Q.shape[0]} queries")
        e = float(np.max(np.abs(mu - ref["mu"]) / tol_mu))
        ctx.ratio("history-mean", e, 1.0)
        if not e <= 1:
            raise Violation(f"history-mean:{tag}", f"{where}: predictive mean {mu.tolist()} vs closed form {ref['mu'].tolist()}")
        if var is not None:
            tv = f * (np.sqrt(np.outer(prior_var, prior_var)) if var.ndim == 2 else prior_var)
            ev = float(np.max(np.abs(np.abs(var) - np.abs(ref_var)) / tv)) if var.shape == np.shape(ref_var) else np.inf
            ctx.ratio("history-variance", ev, 1.0)
            if not ev <= 1:
                raise Violation(f"history-variance:{tag}", f"{where}: predictive (co)variance {np.asarray(var).tolist()} vs closed form {np.asarray(ref_var).tolist()}")
    ctx.nontrivial(switched >= 1 or reused >= 1)
    ctx.event(f"switches={min(switched, 2)}")
    ctx.event(f"query-buffer-reuses={min(reused, 2)}")
    ctx.event("kernel=" + ("CP" if rk.has(spec, "CP") else spec["k"]))


# ------------------------------------------------------------------ the same numbers in other array forms
INT_FORMS = ["int64", "int32", "int16", "uint8", "uint16", "float32", "fortran", "strided"]


def as_form(a, form):
    """the same numbers in another array form; a form that cannot hold them exactly falls back to int64 / float64"""
    a = np.array(a, dtype=float)
    if form in ("int64", "int32", "int16", "int8", "uint8", "uint16", "uint32", "float32"):
        out = a.astype(form)
        if np.array_equal(out.astype(float), a):
            return out
        return a.astype(np.int64) if np.array_equal(np.round(a), a) else a.copy()
    if form == "fortran":
        return np.asfortranarray(a)
    if form == "strided":
        big = np.zeros((2 * a.shape[0],) + a.shape[1:])
        big[::2] = a
        return big[::2]
    return a.copy()


@st.composite
def form_cases(draw):
    d = draw(st.integers(1, 3))
    n = draw(st.integers(3, 7))
    pts = draw(st.lists(st.tuples(*[st.integers(-6, 6)] * d), min_size=n, max_size=n, unique=True))
    return {"seed": draw(st.integers(0, 2**31)), "d": d, "n": n, "x": [list(p) for p in pts],
            # the lattice spacing of the coordinates, and whether they are shifted to be non-negative (unsigned forms can hold them)
            "x_step": draw(st.sampled_from([1, 1, 20, 1000, 20000])), "x_shift": draw(st.booleans()),
            "y": [draw(st.integers(-9, 9)) for _ in range(n)], "err": [draw(st.integers(1, 3)) for _ in range(n)],
            "y_step": draw(st.sampled_from([1, 1, 10])),
            "noise": draw(st.sampled_from(["none", "y_err", "y_cov"])),
            "q": [[draw(st.integers(-7, 7)) for _ in range(d)] for _ in range(draw(st.integers(1, 4)))],
            "kernel": draw(st.sampled_from([{"k": "SE"}, {"k": "RQ"}, {"k": "Sum", "parts": [{"k": "SE"}, {"k": "White"}]}])),
            "mean": draw(st.sampled_from(["Constant", "Linear", "Quadratic"])),
            "theta": [draw(st.floats(-1.5, 1.5)) for _ in range(12)],
            "forms": {k: draw(st.sampled_from(INT_FORMS + ["float64"] + (["list"] if k == "err" else []))) for k in ("x", "y", "err", "q")},
            "x_list": draw(st.booleans())}


def rescale_theta(theta, kinds, spec, mean_kind, d, n, step, ystep):
    """hyper-parameters drawn for unit lattice spacing and unit data scale, moved to spacing `step` and data scale `ystep`"""
    theta = np.array(theta, dtype=float)
    nm = rk.mean_n_params(mean_kind, d)
    theta[0] *= ystep
    for j in range(1, nm):
        theta[j] *= ystep / (step if j <= d else step * step)
    cov = rk.build_kernel(spec)
    cov.pass_spatial_data(np.zeros((n, d)))
    for j, lab in enumerate(cov.hyperpar_labels):
        if "scale" in lab:                       # log length-scale
            theta[nm + j] += np.log(step)
        elif "amplitude" in lab or "noise" in lab.lower():
            theta[nm + j] += np.log(ystep)
    return theta


def body_forms(case, ctx):
    """whole-number data are the same data whether held as float64, integer, single-precision, Fortran-ordered or strided arrays
    (and x as a list of rows): the regressor built from either gives the same predictions"""
    d, n = case["d"], case["n"]
    spec = case["kernel"]
    X, y, err, Q = (np.array(case[k], dtype=float) for k in ("x", "y", "err", "q"))
    X, Q = X.reshape(n, d), Q.reshape(-1, d)
    step, ystep = float(case.get("x_step", 1)), float(case.get("y_step", 1))
    shift = 7.0 if case.get("x_shift") else 0.0
    X, Q = (X + shift) * step, (Q + shift) * step
    y, err = y * ystep, err * ystep
    if np.ptp(y) == 0:
        raise Inconclusive("constant data")
    n_theta = rk.mean_n_params(case["mean"], d) + rk.n_params(spec, n, d)
    theta = np.array(case["theta"][:n_theta], dtype=float)
    # hyper-parameters follow the units: log-amplitudes / noise levels with y, log length-scales with x, mean coefficients with both
    kinds = None
    theta = rescale_theta(theta, kinds, spec, case["mean"], d, n, step, ystep)

    def build(fx, fy, fe, xl):
        kw = {}
        if case["noise"] == "y_err":
            kw["y_err"] = as_form(err, fe) if fe != "list" else [float(v) for v in err]
        elif case["noise"] == "y_cov":
            kw["y_cov"] = as_form(np.diag(err**2), fe) if fe != "list" else np.diag(err**2).tolist()
        xin = as_form(X, fx)
        if xl:
            xin = [row for row in xin]
        with warnings.catch_warnings(), np.errstate(all="ignore"):
            warnings.simplefilter("ignore")
            return GpRegressor(xin, as_form(y, fy), hyperpars=theta.copy(), kernel=rk.build_kernel(spec), mean=rk.build_mean(case["mean"]), **kw)

    f = case["forms"]
    try:
        ref = build("float64", "float64", "float64", False)
        gp = build(f["x"], f["y"], f["err"], case["x_list"])
    except np.linalg.LinAlgError:
        raise Inconclusive("Cholesky failed")
    with np.errstate(all="ignore"):
        mu0, cov0 = ref.build_posterior(Q.copy())
        s0 = ref(Q.copy())[1]
        mu1, cov1 = gp.build_posterior(as_form(Q, f["q"]))
        s1 = gp(as_form(Q, f["q"]))[1]
    mu0, cov0, s0, mu1, cov1, s1 = (np.asarray(a, dtype=float) for a in (mu0, cov0, s0, mu1, cov1, s1))
    if not np.all(np.isfinite(mu0)):
        raise Inconclusive("reference not finite")
    kappa = np.linalg.cond(ref.K_xx)
    tol = (1e-9 + 100 * kappa * EPS)
    # single precision holds these whole numbers exactly, but arithmetic that stays in float32 is coarser: allow its epsilon there
    # (single precision holds these whole numbers exactly: the same data, so the same answer - an earlier version allowed float32's
    # epsilon "for arithmetic that stays in float32", i.e. excused the implementation for computing in the input's type)
    sc_mu = np.max(np.abs(mu0)) + np.max(np.abs(y)) + 1.0
    # (co)variances are differences of prior-sized terms: judged at the scale of the prior variance, not of a posterior variance that
    # may be orders of magnitude smaller (a query on a noise-free training point)
    with np.errstate(all="ignore"):
        prior = np.asarray(ref.cov(Q.copy(), Q.copy(), ref.cov_hyperpars), dtype=float)
    sc_c = max(float(np.max(np.abs(cov0))), float(np.max(np.abs(prior)))) + 1e-300
    what = ", ".join(f"{k}={v}" for k, v in f.items()) + (", x as list of rows" if case["x_list"] else "")
    if mu1.shape != mu0.shape or cov1.shape != cov0.shape or s1.shape != s0.shape:
        raise Violation("forms-shape", f"[{what}] shapes {mu1.shape}/{cov1.shape}/{s1.shape} vs {mu0.shape}/{cov0.shape}/{s0.shape} from float64 arrays")
    e = max(float(np.max(np.abs(mu1 - mu0))) / (tol * sc_mu), float(np.max(np.abs(cov1 - cov0))) / (tol * sc_c), float(np.max(np.abs(s1**2 - s0**2))) / (tol * sc_c))
    ctx.ratio("forms", e, 1.0)
    if not e <= 1:
        raise Violation("forms:" + "+".join(sorted({v for v in f.values() if v != "float64"}) or ["list"]), f"{rk.describe(spec)}, {case['mean']} mean, noise {case['noise']}: predictions from [{what}] differ from those "
                        f"from float64 arrays of the same numbers: mean {mu1.tolist()} vs {mu0.tolist()}, variances {np.diag(cov1).tolist()} vs {np.diag(cov0).tolist()}")
    ctx.nontrivial(any(v in ("int64", "int32") for v in f.values()))
    for k, v in f.items():
        ctx.event(f"{k}:{v}")


@st.composite
def posterior_cases(draw, max_n):
    case = draw(gc.gp_problems(max_n=max_n, min_n=1))
    if draw(st.integers(0, 3)) == 0:
        case["preuse"] = {"seed": draw(st.integers(0, 10**6)), "dn": draw(st.sampled_from([-2, 0, 1, 3])), "dd": draw(st.sampled_from([0, 1, -1, 2]))}
    return case


SUBCHECKS = [
    Sub("posterior", lambda t: posterior_cases(25 if t == "thorough" else 16), body_posterior, quick=1400, thorough=50000,
        shards_quick=10, shards_thorough=16,
        rule="n >= 3 and (composite / change-point kernel or non-constant mean or d >= 2 or full y_cov), kappa <= 1e10"),
    Sub("relations", lambda t: gc.gp_problems(max_n=14, max_m=3, min_n=2), body_relations, quick=700, thorough=25000,
        shards_quick=6, shards_thorough=16,
        rule="n >= 3 and (composite / change-point kernel or non-constant mean or d >= 2 or full y_cov), kappa <= 1e10"),
    Sub("history", lambda t: history_cases(), body_history, quick=700, thorough=25000, shards_quick=7, shards_thorough=16,
        rule="one regressor whose hyper-parameters are switched, or whose caller re-uses one query array for different points, between predictions"),
    Sub("forms", lambda t: form_cases(), body_forms, quick=600, thorough=20000, shards_quick=6, shards_thorough=16,
        rule="some of x, y, errors, queries held in an integer array"),
]
