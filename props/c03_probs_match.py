"""C03 - stored log-probabilities always belong to the stored samples.

Model-based histories (steps, advances, parallel-tempering style exchanges, clones built from the same
input arrays): after every operation every stored log-probability is re-derived by the harness from the
stored sample (own evaluation of the log-density, divided by T), mode() is checked against the read-outs,
and caller-owned arrays / sibling samplers are compared with pristine copies.
"""
import warnings

import numpy as np
from hypothesis import strategies as st

from vlib import rngctl  # noqa: F401
from vlib import samplers as S
from vlib.targets import Target
from vlib.core import Sub, Violation, Inconclusive

RULE = ("histories of take_step / advance(m) / exchange (replace_last + re-tempered probability, as the tempering worker does) / "
        "clone-from-the-same-input-arrays / step-the-clone over every sampler class, temperatures 0.3..50, bounds and Gibbs limits; "
        "non-trivial = >= 1 accepted move after the start and (for the independence part) both clones stepped")
ASSUMPTIONS = ["the harness's own evaluation of the same deterministic log-density is bit-identical up to 1e-12 relative",
               "exchange is performed through the public calls the tempering worker uses (replace_last, probs[-1])"]


@st.composite
def histories(draw):
    cfg = draw(S.sampler_configs(bounds="maybe", target_kinds=("gauss", "gauss", "cliff", "mix", "plateau")))
    ens = cfg["cls"] == "ensemble"
    ops = []
    for _ in range(draw(st.integers(1, 7))):
        kinds = ["step", "advance", "advance", "clone", "step_clone", "reload"] + ([] if ens else ["exchange", "exchange"])
        k = draw(st.sampled_from(kinds))
        if k == "advance":
            ops.append({"op": k, "m": draw(st.sampled_from([0, 1, 2, 3]) if ens else st.one_of(st.integers(0, 30), st.integers(95, 130)))})
        elif k == "exchange":
            # (in a ladder whose chains do not share their bounds the received point may lie outside the receiver's box)
            ops.append({"op": k, "u": [draw(st.floats(-1.5, 1.5)) for _ in range(cfg["d"])], "keep_outside": draw(st.sampled_from([False, False, True])),
                        # the caller goes on using the array it handed over (a buffer it fills with the next position to send)
                        "reuse_array": draw(st.booleans())})
        elif k == "step_clone":
            ops.append({"op": k, "m": draw(st.integers(1, 3))})
        else:
            ops.append({"op": k})
    cfg["ops"] = ops
    if not ens and cfg["T"] in (0.5, 2.0, 3.0, 10.0, 50.0) and draw(st.booleans()):
        cfg["prec"] = {"T": draw(st.sampled_from(["numpy", "float32", "float16"]))}     # the temperature as a numpy scalar of some width
    cfg["max_attempts"] = draw(st.sampled_from([None, None, 1, 2, 3]))   # ensemble / HMC public attribute: failed updates become frequent
    return cfg


def full(ch):
    with np.errstate(all="ignore"):
        s = np.asarray(ch.get_sample(burn=0), dtype=float)
        p = np.asarray(ch.get_probabilities(burn=0), dtype=float)
    return s, p


def stored_any(ch, cfg):
    return not (cfg["cls"] == "ensemble" and ch.sample is None)


def check_chain(ch, tgt, cfg, label, ctx):
    cls = cfg["cls"]
    T = cfg["T"]
    if not stored_any(ch, cfg):
        return 0
    s, p = full(ch)
    if s.ndim != 2 or s.shape[0] != p.shape[0] or s.shape[0] != ch.chain_length:
        raise Violation(f"lengths:{cls}", f"{label}: samples {s.shape}, probabilities {p.shape}, chain_length {ch.chain_length}")
    want = np.array([tgt.logp(r) for r in s]) / T
    tol = 1e-12 * (np.abs(want) + 1.0)
    bad = np.nonzero(~(np.abs(p - want) <= tol))[0]
    if bad.size:
        k = int(bad[0])
        where = "start" if k == 0 else ("last" if k == s.shape[0] - 1 else "interior")
        raise Violation(f"prob-mismatch:{cls}:{where}", f"{label}: stored log-probability [{k}] = {p[k]!r} but log-density(sample[{k}])/T = {want[k]!r} (T = {T}, {bad.size} of {p.size} rows differ)")
    with np.errstate(all="ignore"):
        m = np.asarray(ch.mode(), dtype=float).reshape(-1)
    hit = np.nonzero(np.all(s == m[None, :], axis=1))[0]
    if hit.size == 0:
        raise Violation(f"mode-not-stored:{cls}", f"{label}: mode() = {m} is not a stored sample")
    if p[hit].max() != p.max():
        raise Violation(f"mode-not-max:{cls}", f"{label}: mode() has stored log-probability {p[hit].max()!r}, the maximum is {p.max()!r}")
    return s.shape[0]


def snapshot_inputs(info):
    return {k: np.array(v, copy=True) for k, v in info.items() if isinstance(v, np.ndarray)}


def check_inputs(info, snap, cls, when):
    for k, v in snap.items():
        cur = info[k]
        if cur.shape != v.shape or cur.dtype != v.dtype or not np.array_equal(cur, v):
            raise Violation(f"input-modified:{cls}:{k}", f"caller-owned array '{k}' changed {when}: {v.tolist()} -> {cur.tolist()}")


def build_from_info(cfg, tgt, info):
    """second sampler from the SAME array objects the first one was given"""
    from inference.mcmc import GibbsChain, PcaChain, HamiltonianChain, EnsembleSampler
    from inference.mcmc.gibbs import MetropolisChain

    cls = cfg["cls"]
    kw = {"display_progress": cfg.get("display_progress", True)}
    b = (info["lo"], info["hi"]) if "lo" in info else None
    with warnings.catch_warnings():
        warnings.simplefilter("ignore")
        if cls in ("gibbs", "metropolis"):
            C = GibbsChain if cls == "gibbs" else MetropolisChain
            ch = C(posterior=tgt, start=info["start"], widths=info["widths"], temperature=cfg["T"], **kw)
            for i in range(len(cfg.get("limits", []))):
                kind = S.limit_kind(cfg, i)
                if kind in ("bounded", "both"):
                    ch.set_boundaries(i, S.gibbs_interval(cfg, i))
                if kind in ("nonneg", "both"):
                    ch.set_non_negative(i, True)
            return ch
        if cls == "pca":
            return PcaChain(posterior=tgt, start=info["start"], widths=info["widths"], temperature=cfg["T"], bounds=b, **kw)
        if cls == "hmc":
            return HamiltonianChain(posterior=tgt, start=info["start"], grad=(S.GradRecorder(tgt) if cfg["hmc"]["grad"] else None),
                                    epsilon=info["epsilon"], temperature=cfg["T"], bounds=b, inverse_mass=info.get("inv_mass"), **kw)
        return EnsembleSampler(posterior=tgt, starting_positions=info["positions"], alpha=cfg["ens"]["alpha"], bounds=b, **kw)


def body_history(case, ctx):
    cfg = case
    cls = cfg["cls"]
    ch, tgt, info = S.build(cfg, record=False)
    if cfg.get("max_attempts") and cls == "ensemble":
        ch.max_attempts = cfg["max_attempts"]
    snap = snapshot_inputs(info)
    check_inputs(info, snap, cls, "by the constructor")
    check_chain(ch, tgt, cfg, "after construction", ctx)
    clone = None
    stepped_main = stepped_clone = False
    moved = False
    outside_installed = False      # an exchange has put the current point outside the chain's own bounds
    for k, op in enumerate(cfg["ops"]):
        label = f"after op {k} {op}"
        with warnings.catch_warnings():
            warnings.simplefilter("ignore")
            with np.errstate(all="ignore"):
                if op["op"] == "step":
                    if cls == "ensemble":
                        ch.advance(1)
                    else:
                        try:
                            ch.take_step()
                        except ValueError as e:
                            # HamiltonianChain's documented refusal ("Failed to take step within maximum allowed attempts"): from a point
                            # outside its bounds the first fold of every trajectory is a jump whose energy change no step size removes.
                            # The property is about what is stored, and nothing is; the case ends here (seen at VERIF_SEED=7)
                            if cls == "hmc" and outside_installed and "Failed to take step" in str(e):
                                raise Inconclusive("HamiltonianChain refuses to move from an installed point outside its bounds")
                            raise
                        outside_installed = False
                        # the caller looks at the current point and goes on computing with the array it got
                        if hasattr(ch, "get_last"):
                            cur = ch.get_last()
                            if isinstance(cur, np.ndarray) and cur.flags.writeable:
                                cur += 10.0
                    stepped_main = True
                elif op["op"] == "advance":
                    try:
                        ch.advance(op["m"])
                    except ValueError as e:
                        if cls == "hmc" and outside_installed and "Failed to take step" in str(e):      # (as for a single step)
                            raise Inconclusive("HamiltonianChain refuses to move from an installed point outside its bounds")
                        raise
                    if op["m"] > 0:
                        outside_installed = False
                    stepped_main = stepped_main or op["m"] > 0
                elif op["op"] == "exchange":
                    c, s = S.centre_scale(cfg)
                    pos = c + np.array(op["u"]) * s
                    box = S.box_of(cfg)
                    if box is not None and not op.get("keep_outside"):
                        pos = np.clip(pos, box[0], box[1])
                    outside_installed = box is not None and bool(np.any((pos < box[0]) | (pos > box[1])))
                    for i, kind in enumerate(cfg.get("limits", [])):
                        kind = S.limit_kind(cfg, i)
                        if kind == "nonneg":
                            pos[i] = abs(pos[i])
                        elif kind in ("bounded", "both"):
                            lo, hi = S.support_interval(cfg, i)
                            pos[i] = min(max(pos[i], lo), hi)
                    if cfg["target"]["kind"] == "cliff":
                        # keep installed points off the discontinuities: a point within an ulp of a cliff edge makes the
                        # 1-ulp rounding of the bounds fold worth 100 nats and the retry loops never accept
                        e = np.array(cfg["target"]["edges"])
                        near = np.abs(pos - e) < 1e-6 * (1 + np.abs(e))
                        pos = np.where(near, e + 1e-3, pos)
                    # exactly what the tempering worker does with a received position
                    handed = pos.copy()
                    ch.replace_last(handed)
                    ch.probs[-1] = tgt.logp(pos) * ch.inv_temp
                    if op.get("reuse_array"):
                        handed += 1e3 * (1.0 + np.abs(handed))        # the caller's array is the caller's: the chain keeps the values it was given
                        got = np.asarray(ch.get_last(), dtype=float)
                        if not np.array_equal(got, pos):
                            raise Violation(f"replace_last-aliases:{cfg['cls']}", f"after replace_last(x) the caller changed its own array x: the chain's current point is now {got.tolist()}, "
                                                                                f"it was given {pos.tolist()}")
                    ctx.event("exchange")
                elif op["op"] == "reload" and stored_any(ch, cfg):
                    # the sampler is saved and restored (same posterior object); what it records from here on is held to the same rule
                    import os
                    import tempfile
                    from props.c09_save_load import load as load_sampler
                    fd, path = tempfile.mkstemp(suffix=".npz")
                    os.close(fd)
                    try:
                        ch.save(path)
                        ch = load_sampler(cfg, path, tgt)
                    finally:
                        os.remove(path)
                    if cfg.get("max_attempts") and cls == "ensemble":
                        ch.max_attempts = cfg["max_attempts"]
                    ctx.event("reloaded")
                elif op["op"] == "clone":
                    before = full(ch) if stored_any(ch, cfg) else None
                    clone = build_from_info(cfg, Target(cfg["target"], record=False), info)
                    stepped_clone = False
                    check_inputs(info, snap, cls, "by constructing a second sampler from the same arrays")
                    if before is not None:
                        after = full(ch)
                        if not (np.array_equal(before[0], after[0]) and np.array_equal(before[1], after[1])):
                            raise Violation(f"shared-state:{cls}", "constructing a second sampler from the same input arrays changed the first sampler's read-outs")
                elif op["op"] == "step_clone" and clone is not None:
                    before = full(ch) if stored_any(ch, cfg) else None
                    if cls == "ensemble":
                        clone.advance(op["m"])
                    else:
                        for _ in range(op["m"]):
                            clone.take_step()
                    stepped_clone = True
                    if before is not None:
                        after = full(ch)
                        if not (np.array_equal(before[0], after[0]) and np.array_equal(before[1], after[1])):
                            raise Violation(f"shared-state:{cls}", "stepping a sampler built from the same input arrays changed the other sampler's read-outs")
        n = check_chain(ch, tgt, cfg, label, ctx)
        if clone is not None:
            check_chain(clone, clone.posterior, cfg, label + " (clone)", ctx)
        check_inputs(info, snap, cls, label)
        if n > 1:
            s, _ = full(ch)
            moved = moved or bool(np.any(s[1:] != s[:-1]))
    ctx.nontrivial(moved and (clone is None or (stepped_main and stepped_clone)))
    ctx.event("cls=" + cls)
    ctx.event("T!=1" if cfg["T"] != 1.0 else "T=1")
    ctx.event("with-clone" if clone is not None else "no-clone")
    if cls == "ensemble" and getattr(ch, "failed_updates", None) and sum(ch.failed_updates) > 0:
        ctx.event("ensemble-failed-walker-updates")
    if clone is not None and stepped_main and stepped_clone:
        ctx.event("both-clones-stepped")


def _pt_cases():
    """real ParallelTempering objects (worker processes; sorted, unsorted and tied temperature ladders): after every exchange round each
    chain's last stored log-probability is the log-density of its last stored sample over its own temperature (the clauses
    `stale-probability` / `exchange-probability` / `exchange-position` of the C08 history check, same generator and body)"""
    from props import c08_tempering as c08

    return c08.swap_cases()


def _pt_body(case, ctx):
    from props import c08_tempering as c08

    return c08.body_swaps(case, ctx)


# ------------------------------------------------------------------ a log-density written with array arithmetic
# For a single parameter `-0.5 * ((theta - m) / s) ** 2` is an array of shape (1,), not a scalar.  The chains took such densities in the
# pinned tree; a repair of mine (plain-float acceptance statistics) made three of them raise on the first step (found by a third-round
# hunt agent), so the input class is generated here.  The oracle is the property's: every stored value is the density of its sample.
@st.composite
def _one_elem_cases(draw):
    return {"seed": draw(st.integers(0, 2**31)), "cls": draw(st.sampled_from(["gibbs", "metropolis", "pca", "hmc"])),
            "m": draw(st.sampled_from([-3.0, 0.0, 2.5])), "s": draw(st.sampled_from([0.3, 1.0, 4.0])), "T": draw(st.sampled_from([1.0, 1.0, 2.0])),
            "steps": draw(st.sampled_from([1, 3, 30, 130]))}


def _one_elem_body(case, ctx):
    from inference.mcmc import GibbsChain, PcaChain, HamiltonianChain
    from inference.mcmc.gibbs import MetropolisChain

    m, s, T = case["m"], case["s"], case["T"]
    post = lambda t: -0.5 * ((np.asarray(t, dtype=float) - m) / s) ** 2          # noqa: E731  (shape (1,) for one parameter)
    grad = lambda t: -(np.asarray(t, dtype=float) - m) / s**2                    # noqa: E731
    start = np.array([m + 0.5 * s])
    kw = {"posterior": post, "start": start, "temperature": T, "display_progress": False}
    with warnings.catch_warnings():
        warnings.simplefilter("ignore")
        with np.errstate(all="ignore"):
            if case["cls"] == "hmc":
                ch = HamiltonianChain(grad=grad, **kw)
            else:
                ch = {"gibbs": GibbsChain, "metropolis": MetropolisChain, "pca": PcaChain}[case["cls"]](widths=np.array([s]), **kw)
            ch.advance(case["steps"])
            smp = np.asarray(ch.get_sample(burn=0), dtype=float)
            p = np.asarray(ch.get_probabilities(burn=0), dtype=float)
    if smp.shape != (case["steps"] + 1, 1) or p.shape[0] != smp.shape[0] or p.size != smp.shape[0]:
        raise Violation(f"lengths:{case['cls']}:one-element-density", f"{case['steps']} steps: samples {smp.shape}, probabilities {p.shape}")
    want = -0.5 * ((smp[:, 0] - m) / s) ** 2 / T
    bad = np.nonzero(~(np.abs(p.reshape(-1) - want) <= 1e-12 * (np.abs(want) + 1.0)))[0]
    if bad.size:
        raise Violation(f"prob-mismatch:{case['cls']}:one-element-density", f"stored log-probability [{int(bad[0])}] = {p.reshape(-1)[bad[0]]!r}, density of the stored sample / T = {want[bad[0]]!r}")
    ctx.nontrivial(len(set(smp[:, 0].tolist())) > 1)
    ctx.event("cls=" + case["cls"])


SUBCHECKS = [
    Sub("history", lambda t: histories(), body_history, quick=1600, thorough=20000, shards_quick=16, shards_thorough=16, weight=5,
        rule=">= 1 accepted move after the start; when a clone exists, both samplers stepped"),
    Sub("tempering", lambda t: _pt_cases(), _pt_body, quick=48, thorough=1500, shards_quick=16, shards_thorough=16, weight=60,
        rule=">= 1 accepted and >= 1 rejected exchange with N >= 3"),
    Sub("one-element-density", lambda t: _one_elem_cases(), _one_elem_body, quick=96, thorough=1200, shards_quick=4, shards_thorough=8, weight=1,
        rule=">= 1 accepted move"),
]
