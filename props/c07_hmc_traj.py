"""C07 - Hamiltonian trajectories are reversible, volume-preserving and energy-accurate.

All oracles act on the public pieces HamiltonianChain exposes: run_leapfrog(t, r, n), hamiltonian,
kinetic_energy, mass.sample_momentum, finite_diff.  Reversibility by the forward / flip / forward round
trip, volume by a central-difference Jacobian determinant, energy accuracy by the fitted order of the
energy-error envelope at eps, eps/2, eps/4, the kinetic energy by an exact chi-square KS test of the
momentum draws, an independent textbook leapfrog as reference integrator, and the finite-difference
gradient against the analytic one (including zero-valued coordinates).
"""
import warnings

import numpy as np
from hypothesis import strategies as st
from scipy import stats

from vlib import rngctl
from vlib import samplers as S
from vlib.targets import Target
from vlib.core import Sub, Violation, Inconclusive

EPS = np.finfo(float).eps
RULE = ("cases = smooth target (correlated Gaussian, quartic well, logistic regression, banana, mixture) in d = 1..4, mass default / scalar / "
        "vector / full matrix, T in 0.3..50, eps*omega in 0.01..1, 1..60 leapfrog steps, with and without a box tight enough to reflect, "
        "arbitrary (t, r) inside the box; non-trivial = >= 1 wall reflection, or matrix mass, or T != 1")
ASSUMPTIONS = ["energy order is fitted to the envelope max_s |H(s) - H(0)| (the end-point error oscillates through zero)",
               "volume: central differences with two step sizes; cases where they disagree (a wall crossing inside the stencil) are skipped and counted"]
P_FLOOR = 1e-9 / 4000.0


@st.composite
def cases(draw, bounded=None, kinds=("gauss", "gauss", "quartic", "logreg", "banana", "mix")):
    cfg = draw(S.sampler_configs(classes=["hmc"], max_d=4, target_kinds=kinds,
                                 bounds=("always" if bounded else ("never" if bounded is False else "maybe"))))
    cfg["hmc"]["grad"] = True
    cfg["hmc"]["eps_log"] = draw(st.floats(-2, -0.15))
    if cfg["bounds"] is not None:
        cfg["bounds"]["half"] = [10 ** draw(st.floats(-0.5, 0.6)) for _ in range(cfg["d"])]
    cfg["n_steps"] = draw(st.integers(1, 60))
    cfg["t_u"] = [draw(st.floats(-1, 1)) for _ in range(cfg["d"])]
    cfg["r_u"] = [draw(st.floats(-2.5, 2.5)) for _ in range(cfg["d"])]
    # the mass in effect can also be one the chain estimated from its own samples (and the chain may have been re-loaded since)
    if draw(st.integers(0, 3)) == 0:
        cfg["mass_history"] = {"advance": draw(st.integers(12, 40)), "diagonal": draw(st.booleans()), "reload": draw(st.booleans())}
    return cfg


def apply_mass_history(cfg, ch, tgt, s):
    """advance, estimate_mass (public API), optionally save / load; keeps the step in the configured stability range"""
    import os
    import tempfile
    from inference.mcmc import HamiltonianChain

    h = cfg["mass_history"]
    rngctl.reset(cfg["seed"])
    with warnings.catch_warnings(), np.errstate(all="ignore"):
        warnings.simplefilter("ignore")
        ch.advance(h["advance"])
        samples = np.array(ch.theta[1:], dtype=float)
        est = np.var(samples, axis=0) if h["diagonal"] else np.atleast_2d(np.cov(samples.T))
        ev = est if h["diagonal"] else np.linalg.eigvalsh(est)
        if not np.all(np.isfinite(ev)) or ev.min() <= 1e-8 * max(ev.max(), 1e-300):
            raise Inconclusive("degenerate mass estimate (too few accepted moves)")
        ch.estimate_mass(diagonal=h["diagonal"])
        if h["reload"]:
            fd, path = tempfile.mkstemp(suffix=".npz")
            os.close(fd)
            try:
                ch.save(path)
                ch = HamiltonianChain.load(path, posterior=tgt, grad=ch.grad if cfg["hmc"]["grad"] else None)
            finally:
                os.remove(path)
    ch.ES.epsilon = float(np.min(s)) * 10 ** cfg["hmc"]["eps_log"] / float(np.sqrt(ev.max()))
    return ch


def setup(cfg):
    ch, tgt, info = S.build(cfg, record=False)
    d = cfg["d"]
    c, s = S.centre_scale(cfg)
    if cfg.get("mass_history"):
        ch = apply_mass_history(cfg, ch, tgt, s)
    box = info["box"]
    if box is not None:
        # strictly inside: a point exactly ON the upper wall is treated by the fold as folded once (measure-zero case,
        # recorded as an observation in DESIGN.md) - trajectories are started off the walls
        t0 = box[0] + (0.98 * np.array(cfg["t_u"]) + 1) / 2 * (box[1] - box[0])
    else:
        t0 = c + np.array(cfg["t_u"]) * s
    im = ch.mass.inv_mass
    # momentum in units of its own standard deviation: r = M^(1/2) u
    if np.ndim(im) == 2:
        Lm = np.linalg.cholesky(np.linalg.inv(im))
        r0 = Lm @ np.array(cfg["r_u"])
    else:
        r0 = np.array(cfg["r_u"]) / np.sqrt(im) * np.ones(d)
    return ch, tgt, info, t0, r0, s


def mass_kind(ch):
    im = ch.mass.inv_mass
    return "matrix" if np.ndim(im) == 2 else ("vector" if np.ndim(im) == 1 else "scalar")


def leaves_box(cfg, ch, t0, r0, n):
    """does the same trajectory without walls leave the box?  (classification free / reflecting)"""
    if ch.bounds is None:
        return False
    t, r = t0.copy(), r0.copy()
    lo, hi = ch.bounds.lower, ch.bounds.upper
    for _ in range(n):
        t, r = ch.standard_leapfrog(t.copy(), r.copy(), 1)
        if np.any(t < lo) or np.any(t > hi):
            return True
    return False


def flow(ch, t, r, n):
    with np.errstate(all="ignore"):
        a, b = ch.run_leapfrog(np.array(t, dtype=float, copy=True), np.array(r, dtype=float, copy=True), n)
    return np.asarray(a, dtype=float), np.asarray(b, dtype=float)


def cls_tag(ch, reflecting):
    return ("bounded" if ch.bounds is not None else "free") + ("+reflecting" if reflecting else "") + ":" + mass_kind(ch)


def body_reversible(case, ctx):
    ch, tgt, info, t0, r0, s = setup(case)
    ctx.event("mass=estimated-by-chain" + ("+reloaded" if case["mass_history"]["reload"] else "") if case.get("mass_history") else "mass=as-constructed")
    n = case["n_steps"]
    reflecting = leaves_box(case, ch, t0, r0, n)
    t1, r1 = flow(ch, t0, r0, n)
    t2, r2 = flow(ch, t1, -r1, n)
    if not (np.all(np.isfinite(t2)) and np.all(np.isfinite(r2))):
        raise Inconclusive("trajectory not finite (unstable step)")
    # sensitivity of the round trip to a perturbation, to scale the rounding allowance
    delta = 1e-7 * s
    t1p, r1p = flow(ch, t0 + delta, r0, n)
    t2p, _ = flow(ch, t1p, -r1p, n)
    g = max(float(np.max(np.abs(t1p - t1) / delta)), 1.0)
    if g > 1e4:
        raise Inconclusive("chaotic trajectory (sensitivity > 1e4)")
    rscale = np.abs(r0) + 1.0 / np.sqrt(np.diag(np.atleast_2d(ch.mass.inv_mass)) if np.ndim(ch.mass.inv_mass) == 2 else ch.mass.inv_mass * np.ones_like(r0))
    tol_t = 1e-9 * s * g * g
    tol_r = 1e-9 * rscale * g * g
    et = float(np.max(np.abs(t2 - t0) / tol_t))
    er = float(np.max(np.abs(r2 + r0) / tol_r))
    ctx.ratio("reversibility", max(et, er), 1.0)
    if max(et, er) > 1:
        raise Violation(f"reversible:{cls_tag(ch, reflecting)}", f"{case['target']['kind']} d={case['d']} n={n} T={case['T']}: forward / flip / forward returns to t0 within {np.max(np.abs(t2 - t0) / s):.3g} scale units, "
                                                               f"-r0 within {np.max(np.abs(r2 + r0) / rscale):.3g} (tolerance 1e-9 x {g * g:.3g})")
    ctx.nontrivial(reflecting or mass_kind(ch) == "matrix" or case["T"] != 1.0)
    ctx.event(cls_tag(ch, reflecting))
    ctx.event("T!=1" if case["T"] != 1 else "T=1")


def body_volume(case, ctx):
    ch, tgt, info, t0, r0, s = setup(case)
    ctx.event("mass=estimated-by-chain" + ("+reloaded" if case["mass_history"]["reload"] else "") if case.get("mass_history") else "mass=as-constructed")
    n = min(case["n_steps"], 25)
    d = case["d"]
    reflecting = leaves_box(case, ch, t0, r0, n)
    rs = 1.0 / np.sqrt(np.diag(np.atleast_2d(ch.mass.inv_mass)) if np.ndim(ch.mass.inv_mass) == 2 else ch.mass.inv_mass * np.ones(d))
    scale = np.concatenate([s, rs])
    z0 = np.concatenate([t0, r0])

    def phi(z):
        a, b = flow(ch, z[:d], z[d:], n)
        return np.concatenate([a, b])

    def jac(h):
        J = np.zeros((2 * d, 2 * d))
        for i in range(2 * d):
            e = np.zeros(2 * d)
            e[i] = h * scale[i]
            J[:, i] = (-phi(z0 + 2 * e) + 8 * phi(z0 + e) - 8 * phi(z0 - e) + phi(z0 - 2 * e)) / (12 * h * scale[i])
        return J

    if ch.bounds is not None:
        lo, hi = ch.bounds.lower, ch.bounds.upper
        if np.any(t0 - 4e-4 * s < lo) or np.any(t0 + 4e-4 * s > hi):
            raise Inconclusive("start too close to a wall for a central stencil")
    # three stencil widths: their spread measures the noise of the determinant (round-off of the map divided by the step, amplified by
    # the conditioning of J for unstable trajectories; truncation for the widest); the verdict allows twice that spread
    with np.errstate(all="ignore"):
        dets = [abs(np.linalg.det(jac(h))) for h in (2e-4, 1e-4, 5e-5)]
    if not all(np.isfinite(v) for v in dets):
        raise Inconclusive("jacobian not finite")
    spread = max(dets) - min(dets)
    if spread > 1e-6 * max(max(dets), 1.0):
        ctx.event("skipped:stencils-disagree")
        raise Inconclusive("stencils disagree (wall crossing inside the stencil or strong curvature)")
    d2 = float(np.median(dets))
    ctx.ratio("volume", abs(d2 - 1), 1e-6 + 2 * spread)
    if abs(d2 - 1) > 1e-6 + 2 * spread:
        raise Violation(f"volume:{cls_tag(ch, reflecting)}", f"{case['target']['kind']} d={d} n={n}: |det J| of the trajectory map = {d2!r} (stencil spread {spread:.2g})")
    ctx.nontrivial(reflecting or mass_kind(ch) == "matrix" or case["T"] != 1.0)
    ctx.event(cls_tag(ch, reflecting))


@st.composite
def energy_cases(draw):
    cfg = draw(cases())
    # 1 in 3: no gradient supplied - the trajectory is driven by the internally estimated gradient (relative accuracy ~1e-5)
    cfg["hmc"]["grad"] = draw(st.sampled_from([True, True, False]))
    return cfg


def envelope(ch, t0, r0, eps, n):
    old = ch.ES.epsilon
    ch.ES.epsilon = eps
    try:
        with np.errstate(all="ignore"):
            H0 = float(ch.hamiltonian(t0, r0))
            t, r = t0.copy(), r0.copy()
            worst = 0.0
            for _ in range(n):
                t, r = ch.run_leapfrog(t.copy(), r.copy(), 1)
                worst = max(worst, abs(float(ch.hamiltonian(t, r)) - H0))
        return worst, H0
    finally:
        ch.ES.epsilon = old


def body_energy(case, ctx):
    ch, tgt, info, t0, r0, s = setup(case)
    ctx.event("mass=estimated-by-chain" + ("+reloaded" if case["mass_history"]["reload"] else "") if case.get("mass_history") else "mass=as-constructed")
    n = max(case["n_steps"], 8)
    eps = ch.ES.epsilon
    reflecting = leaves_box(case, ch, t0, r0, n)
    # the claim is asymptotic: halve the step until the error envelope is small, then fit three successive levels
    e1, H0 = envelope(ch, t0, r0, eps, n)
    halvings = 0
    while np.isfinite(e1) and e1 > 0.05 and halvings < 4:
        eps, n, halvings = eps / 2, 2 * n, halvings + 1
        e1, H0 = envelope(ch, t0, r0, eps, n)
    e2, _ = envelope(ch, t0, r0, eps / 2, 2 * n)
    e4, _ = envelope(ch, t0, r0, eps / 4, 4 * n)
    if not all(np.isfinite(v) for v in (e1, e2, e4)):
        raise Inconclusive("energy not finite")
    if e1 > 0.05:
        raise Inconclusive("not in the asymptotic regime after 4 halvings")
    floor = (1e-11 if case["hmc"]["grad"] else 3e-4) * (abs(H0) + 1.0)
    ctx.event("gradient=" + ("supplied" if case["hmc"]["grad"] else "estimated-internally"))
    if e4 < floor or e1 < 100 * floor:
        ctx.event("envelope-below-floor")
        return
    # observed order between successive halvings; a second-order scheme approaches 2 as the step shrinks, so the finest
    # pair decides (one more halving is made before a verdict of "not quadratic")
    order = float(np.log2(e2 / e4))
    levels = [e1, e2, e4]
    if order < 1.7:
        e8, _ = envelope(ch, t0, r0, eps / 8, 8 * n)
        levels.append(e8)
        if np.isfinite(e8) and e8 > floor:
            # the envelope (a maximum over the steps of a trajectory) does not shrink perfectly smoothly: the verdict is the better
            # of the finest pair and the mean order over all four levels (a first-order scheme gives ~1 on both)
            order = max(order, float(np.log2(e4 / e8)), float(np.log2(e1 / e8)) / 3.0)
    ctx.add("order_sum", order)
    ctx.add("order_n", 1)
    tag = cls_tag(ch, reflecting)
    ctx.event(tag)
    if order < 1.7:
        raise Violation(f"energy:{tag}", f"{case['target']['kind']} d={case['d']} T={case['T']}: energy-error envelope {', '.join('%.3g' % v for v in levels)} at eps, eps/2, eps/4, eps/8 - observed order {order:.2f} between the finest levels (< 1.7)")
    ctx.nontrivial(reflecting or mass_kind(ch) == "matrix" or case["T"] != 1.0)


def body_kinetic(case, ctx):
    ch, tgt, info, t0, r0, s = setup(case)
    ctx.event("mass=estimated-by-chain" + ("+reloaded" if case["mass_history"]["reload"] else "") if case.get("mass_history") else "mass=as-constructed")
    d = case["d"]
    T = case["T"]
    # the Hamiltonian is kinetic energy minus the tempered log-density
    with np.errstate(all="ignore"):
        H, K = float(ch.hamiltonian(t0, r0)), float(ch.kinetic_energy(r0))
    want = -tgt.logp(t0) / T
    if abs((H - K) - want) > 1e-10 * (abs(want) + abs(K) + 1):
        raise Violation(f"hamiltonian:{mass_kind(ch)}", f"hamiltonian - kinetic_energy = {H - K!r} but -log-density/T = {want!r} (T={T})")
    # kinetic energy is the one under which the momenta are drawn: 2K(r) ~ chi^2_d
    N = 4000 if ctx.tier == "quick" else 40000
    g = rngctl.rng(case["seed"], 31)
    with np.errstate(all="ignore"):
        ks = np.array([2.0 * float(ch.kinetic_energy(ch.mass.sample_momentum(g))) for _ in range(N)])
    res = stats.kstest(ks, stats.chi2(d).cdf)
    ctx.stat(test="KS", what=f"2K ~ chi2_{d}, mass {mass_kind(ch)}", n=N, statistic=float(res.statistic), p=float(res.pvalue), threshold=P_FLOOR)
    if res.pvalue < P_FLOOR:
        raise Violation(f"kinetic-law:{mass_kind(ch)}", f"d={d}, mass {mass_kind(ch)}: 2*kinetic_energy of sampled momenta is not chi-square({d}): KS {res.statistic:.4f}, p = {res.pvalue:.3g}, mean {ks.mean():.4f}")
    ctx.nontrivial(mass_kind(ch) == "matrix" or T != 1.0)
    ctx.event("mass=" + mass_kind(ch))


def reference_leapfrog(tgt, t, r, n, eps, T, inv_mass, box):
    """textbook kick-drift-kick with specular walls (diagonal mass only when bounded)"""
    t, r = np.array(t, dtype=float), np.array(r, dtype=float)
    vel = (lambda p: inv_mass @ p) if np.ndim(inv_mass) == 2 else (lambda p: inv_mass * p)
    for _ in range(n):
        r = r + 0.5 * eps * tgt.grad(t) / T
        t = t + eps * vel(r)
        if box is not None:
            lo, hi = box
            for i in range(t.size):
                while t[i] < lo[i] or t[i] > hi[i]:
                    if t[i] < lo[i]:
                        t[i], r[i] = 2 * lo[i] - t[i], -r[i]
                    else:
                        t[i], r[i] = 2 * hi[i] - t[i], -r[i]
        r = r + 0.5 * eps * tgt.grad(t) / T
    return t, r


def body_reference(case, ctx):
    ch, tgt, info, t0, r0, s = setup(case)
    ctx.event("mass=estimated-by-chain" + ("+reloaded" if case["mass_history"]["reload"] else "") if case.get("mass_history") else "mass=as-constructed")
    if ch.bounds is not None and mass_kind(ch) == "matrix":
        raise Inconclusive("specular reference undefined for a full mass matrix with walls")
    n = min(case["n_steps"], 30)
    box = info["box"]
    t1, r1 = flow(ch, t0, r0, n)
    if not (np.all(np.isfinite(t1)) and np.all(np.isfinite(r1))):
        raise Inconclusive("trajectory not finite (unstable step)")
    tr, rr = reference_leapfrog(tgt, t0, r0, n, ch.ES.epsilon, case["T"], ch.mass.inv_mass, box)
    delta = 1e-7 * s
    t1p, _ = flow(ch, t0 + delta, r0, n)
    g = max(float(np.max(np.abs(t1p - t1) / delta)), 1.0)
    if g > 1e4:
        raise Inconclusive("chaotic trajectory")
    err = float(np.max(np.abs(t1 - tr) / (1e-9 * s * g)))
    reflecting = leaves_box(case, ch, t0, r0, n)
    ctx.ratio("reference", err, 1.0)
    if err > 1 or not np.all(np.isfinite(t1)):
        raise Violation(f"reference:{cls_tag(ch, reflecting)}", f"{case['target']['kind']} d={case['d']} n={n} T={case['T']}: run_leapfrog ends at {t1}, textbook leapfrog at {tr}")
    ctx.nontrivial(reflecting or mass_kind(ch) == "matrix" or case["T"] != 1.0)
    ctx.event(cls_tag(ch, reflecting))


@st.composite
def fd_cases(draw):
    cfg = draw(cases(kinds=("gauss", "quartic", "logreg", "banana", "mix")))
    cfg["hmc"]["grad"] = False
    cfg["zero_mode"] = [draw(st.sampled_from(["generic", "generic", "zero", "tiny", "neg"])) for _ in range(cfg["d"])]
    # "at every point": also where the density sits far from zero compared with its own width (up to 1e10 widths: a density 20000 float spacings wide)
    if cfg["target"]["kind"] == "gauss" and draw(st.integers(0, 2)) == 0:
        k = draw(st.sampled_from([1e2, 1e3, 1e4, -1e3, -1e4, 1e6, 1e7, 1e8, -1e8, 1e10, -1e10]))    # (a time stamp known to 0.1 s: 1.7e9 +- 0.1)
        L = np.array(cfg["target"]["chol"], dtype=float).reshape(cfg["d"], cfg["d"])
        sd = np.sqrt(np.diag(L @ L.T))
        cfg["target"]["mean"] = [float(m + k * v) for m, v in zip(cfg["target"]["mean"], sd)]
        cfg["far"] = k
        cfg["zero_mode"] = ["generic"] * cfg["d"]
    if cfg["bounds"] is not None:
        # points on / next to the upper wall, where the estimate has to step inwards
        cfg["zero_mode"] = [draw(st.sampled_from([m, m, "upper", "upper-"])) for m in cfg["zero_mode"]]
    return cfg


def body_finite_diff(case, ctx):
    ch, tgt, info, t0, r0, s = setup(case)
    ctx.event("mass=estimated-by-chain" + ("+reloaded" if case["mass_history"]["reload"] else "") if case.get("mass_history") else "mass=as-constructed")
    t = t0.copy()
    box = info["box"]
    for i, m in enumerate(case["zero_mode"]):
        v = {"zero": 0.0, "tiny": 1e-12 * s[i], "neg": -abs(t[i])}.get(m, t[i])
        if m in ("upper", "upper-") and box is not None:
            v = box[1][i] if m == "upper" else box[1][i] - 1e-7 * (box[1][i] - box[0][i])
        if box is not None and not (box[0][i] <= v <= box[1][i]):
            continue
        t[i] = v
    with np.errstate(all="ignore"):
        g = np.asarray(ch.finite_diff(t.copy()), dtype=float)
    # the gradient of the log-density itself: the integrators multiply whatever gradient function they are given by 1/T
    want = tgt.grad(t)
    # natural size of the gradient for the dynamics: the largest component, plus the change of each component over one
    # leapfrog position update (curvature x eps*sqrt(inverse mass)); an error small against that cannot matter to a trajectory
    im = ch.mass.inv_mass
    step = ch.ES.epsilon * np.sqrt(np.diag(im) if np.ndim(im) == 2 else im * np.ones(case["d"]))
    curv = np.zeros(case["d"])
    for i in range(case["d"]):
        e = np.zeros(case["d"])
        # (far from zero the probe must stay above the spacing of the numbers around t, and the distance actually probed is used)
        e[i] = max(1e-6 * step[i], 1e3 * float(np.spacing(abs(t[i]))))
        tp, tm = t + e, t - e
        curv[i] = abs((tgt.grad(tp)[i] - tgt.grad(tm)[i]) / (tp[i] - tm[i]))
    # ... and the size of the gradient one conditional width (1/sqrt(curvature)) away from a stationary point
    scale = np.max(np.abs(want)) + np.maximum(curv * step, np.sqrt(curv))
    err = np.abs(g - want)
    tag = "zero-coordinate" if any(m in ("zero", "tiny") for m in case["zero_mode"]) else "generic"
    ctx.ratio("finite-diff", float(np.max(err / (1e-3 * scale))), 1.0)
    if not np.all(np.isfinite(g)) or np.any(err > 1e-3 * scale):
        i = int(np.argmax(np.where(np.isfinite(err), err, np.inf)))
        if case.get("far"):
            tag = "far-from-zero"
        raise Violation(f"finite-diff:{tag}", f"{case['target']['kind']} d={case['d']} T={case['T']}: estimated gradient[{i}] = {g[i]!r}, true {want[i]!r} at t = {t} (modes {case['zero_mode']})")
    ctx.nontrivial(tag == "zero-coordinate")
    ctx.event(tag)
    ctx.event("bounded" if box is not None else "free")
    ctx.event("location=%g widths from zero" % abs(case["far"]) if case.get("far") else "location~0")


SUBCHECKS = [
    Sub("reversible", lambda t: cases(), body_reversible, quick=700, thorough=20000, shards_quick=12, shards_thorough=16,
        rule=">= 1 wall reflection, or matrix mass, or T != 1"),
    Sub("volume", lambda t: cases(), body_volume, quick=300, thorough=8000, shards_quick=12, shards_thorough=16, weight=4,
        rule=">= 1 wall reflection, or matrix mass, or T != 1"),
    Sub("energy", lambda t: energy_cases(), body_energy, quick=600, thorough=20000, shards_quick=12, shards_thorough=16, weight=3,
        rule=">= 1 wall reflection, or matrix mass, or T != 1"),
    Sub("kinetic", lambda t: cases(), body_kinetic, quick=60, thorough=1200, shards_quick=12, shards_thorough=16, weight=40,
        rule="matrix mass or T != 1"),
    Sub("reference", lambda t: cases(), body_reference, quick=600, thorough=20000, shards_quick=12, shards_thorough=16,
        rule=">= 1 wall reflection, or matrix mass, or T != 1"),
    Sub("finite-diff", lambda t: fd_cases(), body_finite_diff, quick=600, thorough=20000, shards_quick=6, shards_thorough=16,
        rule="a coordinate exactly zero or 1e-12 of its scale"),
]
