"""C05 - likelihood classes are the normalised densities they are named after.

Oracle: 40-digit mpmath log-densities written from the textbook definitions (Gaussian, Cauchy,
logistic with scale sigma*sqrt(3)/pi), cross-checked against scipy.stats; derivative of the
reference log-density w.r.t. each prediction by mpmath numerical differentiation, chained through
the true Jacobian; quad normalisation of single-datum likelihoods; exact negation for cost.
"""
import numpy as np
import mpmath as mp
from hypothesis import strategies as st
from scipy import stats
from scipy.integrate import quad

from vlib import rngctl  # noqa: F401
from vlib.core import Sub, Violation
from inference.likelihoods import GaussianLikelihood, CauchyLikelihood, LogisticLikelihood

mp.mp.dps = 40
RULE = ("cases = (likelihood class, data size 1..40, per-datum scales over 1e-8..1e8, residual z-scores up to 1e4, "
        "forward model family, theta; data sizes to 200 so that products of the scales leave the float range); non-trivial = some |z| > 30, or n >= 2 with scales spread over >= 10x")
ASSUMPTIONS = ["the Jacobian supplied to the likelihood is the analytic Jacobian of the forward model",
               "tolerance 1e-12 relative to sum of |per-datum log-density| (+ n) for values, 1e-10 for gradients"]

CLASSES = {"gauss": GaussianLikelihood, "cauchy": CauchyLikelihood, "logistic": LogisticLikelihood}


# ------------------------------------------------------------------ forward models (numpy and mpmath versions)
class Model:
    def __init__(self, kind, x, n_theta):
        self.kind, self.x, self.p = kind, np.asarray(x, dtype=float), n_theta

    def __call__(self, th):
        th = np.asarray(th, dtype=float)
        x = self.x
        k = self.kind
        if k == "constant":
            return th[0] + 0.0 * x
        if k == "linear":
            return th[0] + th[1] * x
        if k == "poly":
            return sum(th[j] * x**j for j in range(self.p))
        if k == "expdecay":
            return th[0] * np.exp(-th[1] * x) + th[2]
        if k == "sin":
            return th[0] * np.sin(th[1] * x + th[2])
        raise KeyError(k)

    def jac(self, th):
        th = np.asarray(th, dtype=float)
        x = self.x
        k = self.kind
        J = np.zeros((x.size, self.p))
        if k == "constant":
            J[:, 0] = 1.0
        elif k == "linear":
            J[:, 0] = 1.0
            J[:, 1] = x
        elif k == "poly":
            for j in range(self.p):
                J[:, j] = x**j
        elif k == "expdecay":
            e = np.exp(-th[1] * x)
            J[:, 0] = e
            J[:, 1] = -th[0] * x * e
            J[:, 2] = 1.0
        elif k == "sin":
            a = th[1] * x + th[2]
            J[:, 0] = np.sin(a)
            J[:, 1] = th[0] * x * np.cos(a)
            J[:, 2] = th[0] * np.cos(a)
        return J


N_THETA = {"constant": 1, "linear": 2, "expdecay": 3, "sin": 3}


class ScalarModel:
    """the forward model of a single datum that returns a plain number (its Jacobian keeps the documented (1, n_params) shape)"""

    def __init__(self, inner):
        self.inner = inner

    def __call__(self, th):
        return float(np.asarray(self.inner(th)).ravel()[0])

    def jac(self, th):
        return self.inner.jac(th)


class MemoModel:
    """a forward model that remembers its last evaluation (as expensive simulation codes do) and hands out the same array again when
    asked for the same parameters; `identity` is the model whose predictions are the parameters themselves (returned as given)"""

    def __init__(self, inner, identity=False):
        self.inner, self.identity = inner, identity
        self.last_theta, self.last_out = None, None

    def __call__(self, th):
        if self.identity:
            return th
        th = np.asarray(th, dtype=float)
        if self.last_theta is None or not np.array_equal(th, self.last_theta):
            self.last_theta, self.last_out = th.copy(), np.asarray(self.inner(th), dtype=float)
        return self.last_out

    def jac(self, th):
        return np.eye(len(th)) if self.identity else self.inner.jac(th)


def ref_logpdf(cls, y, F, s):
    """per-datum reference log-density in mpmath; y, F, s floats (converted exactly)."""
    y, F, s = mp.mpf(y), mp.mpf(F), mp.mpf(s)
    z = (y - F) / s
    if cls == "gauss":
        return -z * z / 2 - mp.log(s) - mp.log(2 * mp.pi) / 2
    if cls == "cauchy":
        return -mp.log(mp.pi * s * (1 + z * z))
    sc = s * mp.sqrt(3) / mp.pi
    u = abs((y - F) / sc)
    return -u - 2 * mp.log1p(mp.exp(-u)) - mp.log(sc)


def scipy_logpdf(cls, y, F, s):
    if cls == "gauss":
        return stats.norm.logpdf(y, loc=F, scale=s)
    if cls == "cauchy":
        return stats.cauchy.logpdf(y, loc=F, scale=s)
    return stats.logistic.logpdf(y, loc=F, scale=s * np.sqrt(3) / np.pi)


@st.composite
def cases(draw):
    cls = draw(st.sampled_from(sorted(CLASSES)))
    kind = draw(st.sampled_from(["constant", "linear", "poly", "expdecay", "sin"]))
    n = draw(st.one_of(st.integers(1, 4), st.integers(1, 12), st.integers(1, 40), st.integers(41, 200)))
    p = N_THETA.get(kind) or draw(st.integers(1, 5))
    x = [draw(st.floats(-2, 2, width=32)) for _ in range(n)]
    theta = [draw(st.floats(-3, 3, width=32)) for _ in range(p)]
    base_log = draw(st.one_of(st.floats(-8, 8), st.sampled_from([-8.0, -6.0, 6.0, 8.0])))
    hetero = draw(st.booleans())
    logs = [base_log + (draw(st.floats(-2, 2)) if hetero else 0.0) for _ in range(n)]
    logs = [min(8.0, max(-8.0, v)) for v in logs]
    zmode = draw(st.sampled_from(["small", "tail", "far", "mixed", "tiny"]))
    zs = []
    for _ in range(n):
        m = zmode if zmode != "mixed" else draw(st.sampled_from(["small", "tail", "far"]))
        if m == "small":
            zs.append(draw(st.floats(-4, 4)))
        elif m == "tiny":
            # a residual far below the uncertainty (a well-fitting model with generous error bars)
            zs.append(draw(st.sampled_from([-1.0, 1.0])) * 10 ** draw(st.floats(-12, -3)))
        elif m == "tail":
            zs.append(draw(st.floats(-800, 800)))
        else:
            zs.append(draw(st.sampled_from([-1.0, 1.0])) * 10 ** draw(st.floats(1.5, 4.0)))
    container = draw(st.sampled_from(["array", "list", "column"]))
    # whole-number data / uncertainties may be held in integer arrays or lists of Python ints
    return {"seed": 0, "cls": cls, "model": kind, "x": x, "theta": theta, "log10s": logs, "z": zs,
            "container": container, "with_jac": draw(st.booleans()),
            "s_dtype": draw(st.sampled_from(["float", "float", "float", "int64", "int32", "pyint", "uint8", "int8", "int16", "uint16", "float32", "float16"])),
            "y_dtype": draw(st.sampled_from(["float", "float", "float", "int64", "pyint", "int16", "float32"])),
            # "any scale": also uncertainties whose squares / inverse squares leave the float range
            "extreme_log": draw(st.sampled_from([None] * 10 + [-170.0, -158.0, 158.0, 170.0])),
            # a single datum may be given as a plain number, with a forward model that returns a plain number
            "scalar_datum": draw(st.booleans())}


def build(case):
    model = Model(case["model"], case["x"], len(case["theta"]))
    th = np.array(case["theta"], dtype=float)
    s = 10.0 ** np.array(case["log10s"])
    sd, yd = case.get("s_dtype", "float"), case.get("y_dtype", "float")
    if case.get("extreme_log") is not None and sd == "float" and yd == "float":
        s = s * 10.0 ** (case["extreme_log"] - np.mean(case["log10s"]))
    if sd in ("float32", "float16"):
        # the same numbers must be representable in the narrow type: round them through it
        lo, hi = (1e-3, 6e4) if sd == "float16" else (1e-30, 1e30)
        s = np.clip(s, lo, hi).astype(sd).astype(float)
    elif sd != "float":
        top = {"uint8": 255, "int8": 127, "int16": 32767, "uint16": 65535}.get(sd, 1e9)
        s = np.clip(np.round(s), 1.0, top)
    F = model(th)
    y = F + np.array(case["z"]) * s
    if yd == "float32":
        if np.all(np.abs(y) < 1e37):
            y = y.astype(np.float32).astype(float)
    elif yd != "float" and np.all(np.abs(y) < (2**52 if yd != "int16" else 32767)):
        y = np.round(y)
    return model, th, y, s, F


def wrap(arr, container, dtype="float"):
    a = np.array(arr, dtype=float)
    if dtype not in ("float", "pyint"):
        with np.errstate(all="ignore"):
            b = a.astype(dtype)
        if np.array_equal(b.astype(float), a):      # (only if the type holds exactly these numbers)
            a = b
    if container == "list" or dtype == "pyint":
        if dtype == "pyint" and np.all(a == np.round(a)) and np.all(np.abs(a) < 2**52):
            out = [int(v) for v in a]
        else:
            out = [float(v) for v in a]
        return [[v] for v in out] if container == "column" else out
    if container == "column":
        return a.reshape(-1, 1)
    return a


def body_value(case, ctx):
    model, th, y, s, F = build(case)
    cls = case["cls"]
    n = y.size
    if n == 1 and case.get("scalar_datum"):
        sm = ScalarModel(model)
        like = CLASSES[cls](float(y[0]), float(s[0]), sm, forward_model_jacobian=sm.jac if case["with_jac"] else None)
        ctx.event("single datum given as a plain number")
    else:
        like = CLASSES[cls](wrap(y, case["container"], case.get("y_dtype", "float")), wrap(s, case["container"], case.get("s_dtype", "float")), model,
                            forward_model_jacobian=model.jac if case["with_jac"] else None)
    with np.errstate(all="ignore"):
        val = like(th)
    if np.ndim(val) != 0:
        raise Violation(f"value-shape:{cls}", f"log-likelihood is not a scalar: shape {np.shape(val)}")
    val = float(val)
    terms = [ref_logpdf(cls, y[i], F[i], s[i]) for i in range(n)]
    ref = mp.fsum(terms)
    scale = float(mp.fsum([abs(t) for t in terms])) + n
    tol = 1e-12 * scale
    err = abs(float(mp.mpf(val) - ref))
    ctx.ratio(f"value:{cls}", err, tol)
    if not np.isfinite(val) or err > tol:
        raise Violation(f"value:{cls}", f"value {val!r} vs reference {mp.nstr(ref, 20)} (tol {tol:.3g})")
    # scipy agrees with the mpmath reference (guards the oracle itself)
    sp = float(np.sum(scipy_logpdf(cls, y, F, s)))
    if abs(sp - float(ref)) > 1e-9 * scale:
        raise Violation(f"oracle-disagreement:{cls}", f"scipy {sp!r} vs mpmath {mp.nstr(ref, 20)}")
    # cost is the exact negative
    with np.errstate(all="ignore"):
        c = float(like.cost(th))
    if c != -val:
        raise Violation(f"cost:{cls}", f"cost {c!r} is not the exact negative of {val!r}")
    zmax = float(np.max(np.abs(case["z"])))
    spread = (max(case["log10s"]) - min(case["log10s"])) >= 1.0
    ctx.nontrivial(zmax > 30 or (n >= 2 and spread))
    ctx.event(f"cls={cls}")
    ctx.event("zmax>30" if zmax > 30 else "zmax<=30")
    ctx.event("hetero" if spread else "homog")
    ctx.event("sigma-dtype=" + case.get("s_dtype", "float"))
    ctx.event("y-dtype=" + case.get("y_dtype", "float"))
    ctx.event("n=1" if n == 1 else ("n<=12" if n <= 12 else ("n<=40" if n <= 40 else "n>40")))
    if n * abs(np.mean(case["log10s"])) > 308:
        ctx.event("product-of-scales-outside-float-range")


def body_gradient(case, ctx):
    model, th, y, s, F = build(case)
    cls = case["cls"]
    n = y.size
    if n > 12:
        y, s, F = y[:12], s[:12], F[:12]
        model = Model(case["model"], case["x"][:12], len(case["theta"]))
        n = 12
    if n == 1 and case.get("scalar_datum"):
        sm = ScalarModel(model)
        like = CLASSES[cls](float(y[0]), float(s[0]), sm, forward_model_jacobian=sm.jac)
        ctx.event("single datum given as a plain number")
    else:
        like = CLASSES[cls](wrap(y, "array", case.get("y_dtype", "float")), wrap(s, "array", case.get("s_dtype", "float")), model, forward_model_jacobian=model.jac)
    with np.errstate(all="ignore"):
        g = np.asarray(like.gradient(th), dtype=float)
        cg = np.asarray(like.cost_gradient(th), dtype=float)
    p = th.size
    if g.shape != (p,):
        raise Violation(f"gradient-shape:{cls}", f"gradient shape {g.shape}, expected {(p,)}")
    if not np.array_equal(cg, -g):
        raise Violation(f"cost-gradient:{cls}", f"cost_gradient {cg} is not the exact negative of {g}")
    # derivative of the reference log-density w.r.t. each prediction, numerically in 40 digits
    # the derivative of the named log-density with respect to its location, from the textbook formulas in 40-digit arithmetic
    # (a numerical derivative of the reference log-density - used before - needs more digits than that for residuals of 1e-260 sigma,
    # where log(1 + z^2) is 1 to 500 digits); cross-checked against that numerical derivative where it is well conditioned
    def slope(i):
        r, sc = mp.mpf(y[i]) - mp.mpf(F[i]), mp.mpf(s[i])
        if cls == "gauss":
            return r / sc**2
        if cls == "cauchy":
            return 2 * r / (sc**2 + r**2)
        b = sc * mp.sqrt(3) / mp.pi
        return mp.tanh(r / (2 * b)) / b

    dLdF = [slope(i) for i in range(n)]
    for i in range(n):
        zi = abs((y[i] - F[i]) / s[i])
        if 1e-3 < zi < 30:
            num = mp.diff(lambda f, i=i: ref_logpdf(cls, y[i], f, s[i]), mp.mpf(F[i]), h=mp.mpf(s[i]) * mp.mpf("1e-9"))
            if abs(num - dLdF[i]) > mp.mpf("1e-12") * abs(dLdF[i]):
                raise AssertionError(f"oracle self-check failed: textbook slope {dLdF[i]} vs numerical {num}")
    J = model.jac(th)
    zabs = np.abs((y - F) / s)
    # what the rounding of y - F (eps (|y| + |F|)) can do to a slope: times the largest curvature of the log-density, 1/s^2 (gauss),
    # 2/gamma^2 (cauchy), pi^2/(6 s^2) (logistic).  (An earlier version allowed "a few ulps of the largest slope the density can
    # have", eps/s per datum: exactly the absolute error of the cancellation in 2/(1+exp(-z)) - 1 for a residual far below sigma,
    # where the slope itself is of order z/s - the allowance had been sized by the implementation's error.)
    gmax = {"gauss": 1.0, "cauchy": 2.0, "logistic": np.pi**2 / 6.0}[cls] * (np.abs(y) + np.abs(F)) / s**2
    for j in range(p):
        parts = [dLdF[i] * mp.mpf(J[i, j]) for i in range(n)]
        ref = mp.fsum(parts)
        scale = float(mp.fsum([abs(t) for t in parts]))
        # absolute floor: a few ulps of the largest slope the density can have (1/scale), per datum
        floor = float(np.sum(8 * np.finfo(float).eps * gmax * np.abs(J[:, j])))
        tol = 1e-10 * scale + floor + 1e-290
        err = abs(float(mp.mpf(g[j]) - ref))
        ctx.ratio(f"gradient:{cls}", err, tol)
        if not np.isfinite(g[j]) or err > tol:
            raise Violation(f"gradient:{cls}", f"d/dtheta[{j}] = {g[j]!r}, reference {mp.nstr(ref, 20)} (tol {tol:.3g})")
    zmax = float(np.max(np.abs(case["z"])))
    spread = (max(case["log10s"]) - min(case["log10s"])) >= 1.0
    ctx.nontrivial(zmax > 30 or (n >= 2 and spread))
    ctx.event(f"cls={cls}")
    ctx.event(f"model={case['model']}")


@st.composite
def norm_cases(draw):
    return {"seed": 0, "cls": draw(st.sampled_from(sorted(CLASSES))), "y": draw(st.floats(-1e3, 1e3)),
            "log10s": draw(st.floats(-6, 6))}


def body_normalisation(case, ctx):
    cls, y0, s = case["cls"], case["y"], 10.0 ** case["log10s"]
    like = CLASSES[cls]([y0], [s], lambda th: np.asarray(th, dtype=float))

    def dens(u):  # density as a function of the standardised prediction u = (F - y0)/s
        with np.errstate(all="ignore"):
            return float(np.exp(like(np.array([y0 + u * s])))) * s

    pts = [-30, -5, -1, 0, 1, 5, 30]
    total = 0.0
    edges = [-np.inf] + pts + [np.inf]
    for a, b in zip(edges[:-1], edges[1:]):
        total += quad(dens, a, b, epsabs=1e-12, epsrel=1e-10, limit=200)[0]
    ctx.ratio(f"normalisation:{cls}", abs(total - 1.0), 1e-7)
    if abs(total - 1.0) > 1e-7:
        raise Violation(f"normalisation:{cls}", f"integral over the data of exp(logL) = {total!r}")
    ctx.nontrivial(abs(case["log10s"]) > 1)
    ctx.event(f"cls={cls}")


@st.composite
def err_cases(draw):
    return {"seed": 0, "cls": draw(st.sampled_from(sorted(CLASSES))), "n": draw(st.integers(1, 5))}


def body_missing_jacobian(case, ctx):
    n = case["n"]
    like = CLASSES[case["cls"]](np.zeros(n), np.ones(n), lambda th: np.zeros(n) + th[0])
    for meth in ("gradient", "cost_gradient"):
        try:
            getattr(like, meth)(np.array([0.5]))
        except ValueError:
            continue
        except Exception as e:
            raise Violation(f"missing-jacobian:{case['cls']}", f"{meth} raised {type(e).__name__}, documented ValueError")
        raise Violation(f"missing-jacobian:{case['cls']}", f"{meth} returned without a Jacobian")
    ctx.nontrivial(True)


# ------------------------------------------------------------------ histories on one likelihood object
@st.composite
def history_cases(draw):
    base = draw(cases())
    base["extreme_log"] = None        # (scales at the ends of the float range are the subject of the value / gradient sub-checks)
    base["caller_reuses_data"] = draw(st.booleans())
    base["x"], base["log10s"], base["z"] = base["x"][:12], base["log10s"][:12], base["z"][:12]
    p = len(base["theta"])
    alts = []
    for _ in range(draw(st.integers(1, 3))):
        th = list(base["theta"])
        for j in draw(st.lists(st.integers(0, p - 1), min_size=1, max_size=p, unique=True)):
            th[j] = draw(st.floats(-3, 3, width=32))
        alts.append(th)
    base["alts"] = alts
    base["ops"] = draw(st.lists(st.tuples(st.sampled_from(["value", "cost", "gradient", "cost_gradient"]), st.integers(0, len(alts)),
                                          st.sampled_from(["fresh", "shared", "shared"])), min_size=2, max_size=10))
    # the forward model may hand out an array it keeps (memoised result) or the parameter vector itself (identity model)
    base["model_wrap"] = draw(st.sampled_from(["none", "none", "memo", "identity"]))
    if base["model_wrap"] == "identity":
        p = len(base["theta"])
        base["x"], base["log10s"], base["z"] = [0.0] * p, (base["log10s"] * p)[:p], (base["z"] * p)[:p]
        base["s_dtype"] = base["y_dtype"] = "float"
    return base


def float_slopes(cls, y, F, s):
    z = (y - F) / s
    if cls == "gauss":
        return z / s
    if cls == "cauchy":
        return 2 * z / (s * (1 + z * z))
    sc = s * np.sqrt(3) / np.pi
    return np.tanh((y - F) / sc / 2) / sc


def body_history(case, ctx):
    """every answer of a long-lived likelihood object is the log-density (or its gradient) at the theta passed in that call:
    compared with an object that has never been used before (whose answers the value / gradient sub-checks tie to the reference)"""
    model, th0, y, s, _ = build(case)
    cls = case["cls"]
    wrap_kind = case.get("model_wrap", "none")
    if wrap_kind == "identity":
        y = th0 + np.array(case["z"]) * s          # data scattered about the parameters themselves
    thetas = [th0] + [np.array(t, dtype=float) for t in case["alts"]]
    used_model = model if wrap_kind == "none" else MemoModel(model, identity=(wrap_kind == "identity"))
    y_given, s_given = y.copy(), s.copy()
    like = CLASSES[cls](y_given, s_given, used_model, forward_model_jacobian=used_model.jac)
    if case.get("caller_reuses_data"):
        # the arrays handed over are the caller's (a buffer refilled for the next likelihood, an in-place y -= y.mean()): what the caller
        # does with them afterwards is not the data this object was given
        y_given += 1.0 + 3.0 * np.abs(y_given)
        s_given *= 7.0
        ctx.event("caller re-used its data arrays after construction")
    if wrap_kind == "identity":
        model = MemoModel(model, identity=True)   # reference predictions: the parameters
    buf = th0.copy()
    last_shared, switched = None, 0
    for step, (what, j, how) in enumerate(case["ops"]):
        th = thetas[j]
        if how == "shared":
            if last_shared != j:       # asked again at the same parameters, the caller passes its array again without touching it
                buf[:] = th
            arg = buf
            switched += last_shared is not None and not np.array_equal(thetas[last_shared], th)
            last_shared = j
        else:
            arg = th.copy()
        twin_model = Model(case["model"], case["x"], th.size) if wrap_kind != "identity" else (lambda t: np.array(t, dtype=float, copy=True))
        twin = CLASSES[cls](y.copy(), s.copy(), twin_model, forward_model_jacobian=model.jac)
        F = np.array(model(th.copy()), dtype=float, copy=True)
        where = f"call {step}: {what} at parameter set {j} passed as a {how} array ({cls}, {case['model']} model)"
        with np.errstate(all="ignore"):
            if what in ("value", "cost"):
                got = float(like(arg) if what == "value" else like.cost(arg))
                want = float(twin(th.copy()) if what == "value" else twin.cost(th.copy()))
                tol = 1e-12 * (float(np.sum(np.abs(scipy_logpdf(cls, y, F, s)))) + y.size)
                ctx.ratio("history", abs(got - want), tol)
                if not abs(got - want) <= tol:
                    raise Violation(f"history:{what}", f"{where} returned {got!r}; a never-used object gives {want!r}")
            else:
                got = np.asarray(like.gradient(arg) if what == "gradient" else like.cost_gradient(arg), dtype=float)
                want = np.asarray(twin.gradient(th.copy()) if what == "gradient" else twin.cost_gradient(th.copy()), dtype=float)
                tol = 1e-10 * (np.abs(model.jac(th)).T @ np.abs(float_slopes(cls, y, F, s))) + 1e-290
                e = float(np.max(np.abs(got - want) / tol)) if got.shape == want.shape else np.inf
                ctx.ratio("history", e, 1.0)
                if not e <= 1:
                    raise Violation(f"history:{what}", f"{where} returned {got.tolist()}; a never-used object gives {want.tolist()}")
    ctx.nontrivial(switched >= 1)
    ctx.event(f"shared-switches={min(switched, 3)}")
    ctx.event(f"cls={cls}")
    ctx.event("model=" + wrap_kind)


SUBCHECKS = [
    Sub("value", lambda t: cases(), body_value, quick=4000, thorough=150000, shards_quick=8, shards_thorough=16,
        rule="some |z| > 30, or n >= 2 with per-datum scales spread over >= 10x"),
    Sub("gradient", lambda t: cases(), body_gradient, quick=1600, thorough=60000, shards_quick=8, shards_thorough=16,
        rule="some |z| > 30, or n >= 2 with per-datum scales spread over >= 10x"),
    Sub("normalisation", lambda t: norm_cases(), body_normalisation, quick=150, thorough=3000, shards_quick=3,
        shards_thorough=8, rule="scale differs from 1 by more than 10x"),
    Sub("missing-jacobian", lambda t: err_cases(), body_missing_jacobian, quick=15, thorough=15,
        rule="every class x data size (finite domain of 15 cases)"),
    Sub("history", lambda t: history_cases(), body_history, quick=1500, thorough=40000, shards_quick=6, shards_thorough=16,
        rule="the same caller-owned array re-used in place for >= 2 different parameter vectors on one likelihood object"),
]
