"""C04 - parameter limits are never violated.

(a) the fold maps as pure functions against an exact rational triangle wave;
(b) model-based histories: a dict model of the limits in force (Gibbs: set_boundaries / remove / set_non_negative in
    any order; PCA / HMC / ensemble: bounds at construction) and a recording posterior / gradient that sees every
    evaluated point; every evaluation and every stored sample must lie inside the closed limits in force.
"""
import warnings
from fractions import Fraction

import numpy as np
from hypothesis import strategies as st

from vlib import rngctl  # noqa: F401
from vlib import samplers as S
from vlib.targets import Target
from vlib.core import Sub, Violation, Inconclusive
from inference.mcmc import Bounds
from inference.mcmc.gibbs import Parameter

EPS = np.finfo(float).eps
RULE = ("(a) boxes with |lower| up to 1e9 and widths 1e-9..1e9, raw points up to 1e6 widths outside, on the walls and inside, vectors of 1..5 "
        "coordinates; (b) histories of limit-changing calls and steps with proposal scales up to 1e4 x the allowed interval; non-trivial = "
        "(a) fold count >= 2, (b) widths >= 3x the interval or >= 2 limit-changing calls on one parameter")
ASSUMPTIONS = ["closed limits up to 4*eps*max(|limits|) (a few units of rounding at the scale of the limits)",
               "limit-changing calls are only generated when the current value lies inside the new limits (no contradictory states)"]


# ------------------------------------------------------------------ (a) pure fold maps
@st.composite
def fold_cases(draw):
    n = draw(st.integers(1, 5))
    coords = []
    for _ in range(n):
        lo = draw(st.sampled_from([0.0, 1.0, -1.0])) * 10 ** draw(st.floats(-3, 9)) if draw(st.booleans()) else draw(st.floats(-10, 10))
        w = 10 ** draw(st.floats(-9, 9))
        if draw(st.integers(0, 9)) == 0:
            w = 10 ** draw(st.sampled_from([20.0, 30.0, 300.0]))        # a far limit that stands for "none"
        w = max(w, abs(lo) * 1e-12)
        kind = draw(st.sampled_from(["inside", "wall", "near", "far", "huge", "abs"]))
        if kind == "inside":
            u = draw(st.floats(0, 1))
        elif kind == "wall":
            u = float(draw(st.integers(-3, 4)))
        elif kind == "near":
            u = draw(st.floats(-3, 4))
        elif kind == "far":
            u = draw(st.floats(-1e3, 1e3))
        elif kind == "abs":
            # a point given by its own value, not as lower + fraction * width: its digits go below the rounding of far-away limits
            u = draw(st.floats(-1, 1)) * 10 ** draw(st.floats(-6, 9))
        else:
            u = draw(st.floats(-1e6, 1e6))
        # one-sided limits: only the lower, only the upper, or no finite limit at all on this coordinate
        coords.append({"lo": lo, "w": w, "u": u, "kind": kind, "open": draw(st.sampled_from([None, None, None, None, "upper", "lower", "both"]))})
    case = {"seed": 0, "coords": coords, "which": draw(st.sampled_from(["bounds", "bounds", "gibbs-boundary", "gibbs-nonneg"]))}
    # whole-number limits may be held in an integer / narrow array (or numpy scalars, for Gibbs parameters): the same limits
    if draw(st.integers(0, 5)) == 0:
        scale = draw(st.sampled_from([100, 30000]))
        for c in coords:
            c["lo"] = -float(draw(st.integers(0, scale)))
            c["w"] = float(draw(st.integers(1, scale))) - c["lo"]
        case["lim_form"] = draw(st.sampled_from(["int8", "int16", "int32", "int64", "float16", "float32"] if scale == 100 else ["int16", "int32", "int64", "float32"]))
    return case


def exact_fold(theta, lo, hi):
    t, a, b = Fraction(theta), Fraction(lo), Fraction(hi)
    w = b - a
    d = t - a
    q = d // w
    rem = d - q * w
    quotient = d / w
    folds = int(q)
    return (a + rem if q % 2 == 0 else b - rem), folds, quotient


class StubGen:
    def __init__(self, value):
        self.value = value

    def normal(self, loc=0.0, scale=1.0, size=None):
        return self.value

    def random(self, size=None):
        return 0.5


def body_folds(case, ctx):
    lo = np.array([c["lo"] for c in case["coords"]])
    hi = lo + np.array([c["w"] for c in case["coords"]])
    ok = hi > lo
    if not ok.all():
        raise Inconclusive("width lost to rounding")
    theta = lo + np.array([c["u"] for c in case["coords"]]) * (hi - lo)
    for c, l, h, i in zip(case["coords"], lo, hi, range(len(lo))):
        if c["kind"] == "abs" and abs(c["u"] - l) <= 1e6 * (h - l):      # (the stated domain: at most 1e6 widths outside)
            theta[i] = c["u"]
        if c["kind"] == "wall":
            theta[i] = l if int(c["u"]) % 2 == 0 and c["u"] in (0.0,) else (h if c["u"] == 1.0 else theta[i])
    which = case["which"]
    form = case.get("lim_form")
    # one-sided limits: Bounds documents them; a Gibbs parameter gets an upper limit only through (-inf, upper)
    opens = [c.get("open") if which in ("bounds", "gibbs-boundary") and not (form and "int" in form) else None for c in case["coords"]]
    if which == "bounds":
        lo_b = np.array([-np.inf if o in ("lower", "both") else v for o, v in zip(opens, lo)])
        hi_b = np.array([np.inf if o in ("upper", "both") else v for o, v in zip(opens, hi)])
        if form:
            lo_b, hi_b = lo_b.astype(form), hi_b.astype(form)
        b = Bounds(lower=lo_b, upper=hi_b)
        r1 = np.asarray(b.reflect(theta.copy()), dtype=float)
        r2, sign = b.reflect_momenta(theta.copy())
        r2, sign = np.asarray(r2, dtype=float), np.asarray(sign, dtype=float)
        if not np.array_equal(r1, r2):
            raise Violation("fold:forms-differ", f"reflect and reflect_momenta give different positions: {r1} vs {r2}")
        results, signs = r1, sign
    else:
        results, signs = np.zeros(lo.size), None
        for i in range(lo.size):
            p = Parameter(value=float(np.clip(theta[i], lo[i], hi[i])), sigma=1.0)
            if which == "gibbs-boundary":
                l_arg = -np.inf if opens[i] in ("lower", "both") else float(lo[i])
                h_arg = np.inf if opens[i] in ("upper", "both") else float(hi[i])
                if form:
                    l_arg, h_arg = np.dtype(form).type(l_arg), np.dtype(form).type(h_arg)
                with warnings.catch_warnings(record=True) as caught:
                    warnings.simplefilter("always")
                    p.set_boundaries(l_arg, h_arg)
                if not p.bounded:
                    raise Violation("fold:limits-refused", f"set_boundaries({l_arg!r}, {h_arg!r}) was not taken up: {[str(w.message) for w in caught]}")
                p.rng = StubGen(float(theta[i]))
                results[i] = p.proposal()
            else:
                p.non_negative = True
                p.rng = StubGen(float(theta[i]))
                results[i] = p.proposal()
    max_folds = 0
    for i in range(lo.size):
        t, l, h, r = float(theta[i]), float(lo[i]), float(hi[i]), float(results[i])
        if which == "gibbs-nonneg":
            if r != abs(t):
                raise Violation("fold:nonneg", f"non-negative proposal for raw draw {t!r} is {r!r}")
            if abs(t) != t:
                max_folds = max(max_folds, 1)
            continue
        if opens[i] is not None:
            # a single finite limit is a mirror; no finite limit leaves the point alone; the momentum flips with the mirror image
            if opens[i] == "both":
                want_r, flipped = t, False
            elif opens[i] == "upper":
                want_r, flipped = (t, False) if t >= l else (float(2 * Fraction(l) - Fraction(t)), True)
            else:
                want_r, flipped = (t, False) if t <= h else (float(2 * Fraction(h) - Fraction(t)), True)
            if not np.isfinite(r) or abs(r - want_r) > 8 * EPS * (abs(t) + abs(l) + abs(h)) or (not flipped and r != t):
                raise Violation("fold:one-sided", f"theta={t!r} with limits ({'-inf' if opens[i] in ('lower', 'both') else l!r}, {'inf' if opens[i] in ('upper', 'both') else h!r}) is mapped to {r!r}, expected {want_r!r}")
            if signs is not None and float(signs[i]) != (-1.0 if flipped else 1.0):
                raise Violation("fold:momentum-sign", f"theta={t!r}, one-sided limit: momentum factor {signs[i]!r}, mirrored: {flipped}")
            ctx.event("one-sided-limit:" + which)
            continue
        exact, folds, quotient = exact_fold(t, l, h)
        max_folds = max(max_folds, abs(folds))
        tol_in = 4 * EPS * max(abs(l), abs(h))
        if not (l - tol_in <= r <= h + tol_in) or not np.isfinite(r):
            raise Violation(f"fold:outside:{which}", f"theta={t!r} folded into [{l!r}, {h!r}] gives {r!r}")
        # "the identity on the allowed region": a point already inside comes back as it is, not re-assembled from lower + remainder
        # (which loses the digits of theta below the rounding of a far-away lower limit)
        if l <= t <= h and r != t:
            raise Violation(f"fold:not-identity:{which}", f"theta={t!r} already inside [{l!r}, {h!r}] is mapped to {r!r}")
        if l < t < h and signs is not None and float(signs[i]) != 1.0:
            raise Violation("fold:momentum-sign", f"theta={t!r} already inside [{l!r}, {h!r}]: momentum factor {signs[i]!r}")
        tol = 8 * EPS * (abs(t) + abs(l) + abs(h))
        # (the property allows rounding 'at the scale of the limits': with a far limit of 1e30 standing for 'none' that allowance is
        # enormous - what such limits do to the sampled law is judged in C01's long-run sub-check)
        err = abs(float(Fraction(r) - exact))
        ctx.ratio("fold-accuracy", err, tol)
        if err > tol:
            raise Violation(f"fold:inexact:{which}", f"theta={t!r}, [{l!r}, {h!r}]: {r!r} vs exact fold {float(exact)!r} ({folds} folds)")
        if signs is not None:
            # (the number of folds is the integer part of (theta - lower) / width: within the rounding of that quotient of a whole
            # number - eps (|theta| + |limits|) / width - either neighbouring count is a correct reading)
            frac = abs(quotient - round(quotient))
            if frac > Fraction(1, 10**9) + Fraction(16 * EPS * (abs(t) + abs(l) + abs(h)) / (h - l)):
                want = -1.0 if folds % 2 else 1.0
                if float(signs[i]) != want:
                    raise Violation("fold:momentum-sign", f"theta={t!r}, [{l!r}, {h!r}]: folded {folds} times, momentum factor {signs[i]!r}")
    ctx.nontrivial(max_folds >= 2)
    ctx.event("which=" + which)
    if form:
        ctx.event("limits held as " + form)
    ctx.event("folds>=2" if max_folds >= 2 else f"folds={max_folds}")


# ------------------------------------------------------------------ (b) Gibbs / Metropolis limit histories
@st.composite
def gibbs_cases(draw):
    cfg = draw(S.sampler_configs(classes=["gibbs", "gibbs", "metropolis"], max_d=3, bounds="never", target_kinds=("gauss", "mix")))
    cfg["limits"] = []
    cfg["width_log"] = [draw(st.floats(-1, 4)) for _ in range(cfg["d"])]
    ops = []
    for _ in range(draw(st.integers(2, 9))):
        k = draw(st.sampled_from(["set_b", "set_b", "rm_b", "nn_on", "nn_off", "step", "step", "advance"]))
        op = {"op": k, "i": draw(st.integers(0, cfg["d"] - 1))}
        if k == "set_b":
            op["below"], op["above"] = 10 ** draw(st.floats(-3, 1)), 10 ** draw(st.floats(-3, 1))
            # a limit on one side only is given with an infinite other side
            op["side"] = draw(st.sampled_from([None, None, None, "upper-only", "lower-only"]))
        if k in ("step", "advance"):
            op["m"] = draw(st.integers(1, 4)) if k == "step" else draw(st.sampled_from([0, 5, 30, 101]))
        ops.append(op)
    cfg["ops"] = ops
    cfg["reload"] = draw(st.sampled_from([False, False, True]))
    return cfg


def body_gibbs(case, ctx):
    cfg = dict(case)
    cfg["ops"] = list(case["ops"])
    cls = cfg["cls"]
    ch, tgt, info = S.build(cfg, record=True)
    d = cfg["d"]
    c, s = S.centre_scale(cfg)
    bounded = [None] * d
    nonneg = [False] * d
    changes = [0] * d
    wide = False

    def region(i):
        lo, hi = -np.inf, np.inf
        if bounded[i] is not None:
            lo, hi = bounded[i]
        if nonneg[i]:
            lo = max(lo, 0.0)
        return lo, hi

    def check_points(points, what, op):
        for pt in points:
            for i in range(d):
                lo, hi = region(i)
                tol = 4 * EPS * max(abs(lo) if np.isfinite(lo) else 0.0, abs(hi) if np.isfinite(hi) else 0.0)
                if not (lo - tol <= pt[i] <= hi + tol):
                    kinds = ("bounded" if bounded[i] is not None else "") + ("+" if bounded[i] is not None and nonneg[i] else "") + ("nonneg" if nonneg[i] else "")
                    upto = next(k for k, o in enumerate(cfg["ops"]) if o is op)
                    hist = [o["op"] for o in cfg["ops"][: upto + 1] if o.get("i") == i and o["op"] not in ("step", "advance")]
                    seq = ">".join(hist[-3:])
                    raise Violation(f"limit-violated:{cls}:{kinds}:{what}", f"parameter {i} = {pt[i]!r} outside the limits in force [{lo!r}, {hi!r}] ({what}) after limit calls {seq}; op {op}")

    for op in cfg["ops"]:
        i = op["i"]
        cur = float(ch.get_last()[i])
        with warnings.catch_warnings():
            warnings.simplefilter("ignore")
            with np.errstate(all="ignore"):
                if op["op"] == "set_b":
                    lo, hi = cur - op["below"] * s[i], cur + op["above"] * s[i]
                    if op.get("side") == "upper-only":
                        lo = -np.inf
                    elif op.get("side") == "lower-only":
                        hi = np.inf
                    if nonneg[i] and hi <= 0:
                        continue
                    if op.get("side"):
                        ctx.event("one-sided set_boundaries")
                    ch.set_boundaries(i, (lo, hi))
                    bounded[i] = (lo, hi)
                    changes[i] += 1
                elif op["op"] == "rm_b":
                    ch.set_boundaries(i, None, remove=True)
                    bounded[i] = None
                    changes[i] += 1
                elif op["op"] == "nn_on":
                    if cur < 0 or (bounded[i] is not None and bounded[i][1] <= 0):
                        continue
                    ch.set_non_negative(i, True)
                    nonneg[i] = True
                    changes[i] += 1
                elif op["op"] == "nn_off":
                    ch.set_non_negative(i, False)
                    nonneg[i] = False
                    changes[i] += 1
                else:
                    mark = len(tgt.trace)
                    n0 = S.n_stored(ch)
                    if op["op"] == "advance":
                        ch.advance(op["m"])
                    else:
                        for _ in range(op["m"]):
                            ch.take_step()
                    check_points([t for t, _ in tgt.trace[mark:]], "posterior evaluation", op)
                    check_points(np.asarray(ch.get_sample(burn=n0)), "stored sample", op)
                    for k in range(d):
                        lo, hi = region(k)
                        if np.isfinite(hi - lo) and ch.params[k].sigma >= 3 * (hi - lo):
                            wide = True
    if cfg.get("reload"):
        import os, shutil, tempfile
        from props.c09_save_load import load as load_sampler

        tmp = tempfile.mkdtemp(prefix="c04-", dir=os.environ.get("TMPDIR", "/tmp"))
        try:
            path = os.path.join(tmp, "chain.npz")
            with warnings.catch_warnings():
                warnings.simplefilter("ignore")
                ch.save(path)
                tgt2 = Target(cfg["target"], record=True)
                ch2 = load_sampler(cfg, path, tgt2)
                n0 = S.n_stored(ch2)
                with np.errstate(all="ignore"):
                    ch2.advance(12)
            op = {"op": "advance-after-save/load", "i": 0}
            cfg["ops"].append(op)
            check_points([t for t, _ in tgt2.trace], "posterior evaluation after save/load", op)
            check_points(np.asarray(ch2.get_sample(burn=n0)), "stored sample after save/load", op)
            ctx.event("reloaded")
        finally:
            shutil.rmtree(tmp, ignore_errors=True)
    ctx.nontrivial(wide or max(changes) >= 2)
    ctx.event("cls=" + cls)
    ctx.event("changes>=2" if max(changes) >= 2 else "changes<2")
    if any(b is not None and n for b, n in zip(bounded, nonneg)):
        ctx.event("both-kinds-in-force")


# ------------------------------------------------------------------ (b) PCA / HMC / ensemble with bounds at construction
@st.composite
def box_cases(draw):
    cfg = draw(S.sampler_configs(classes=["pca", "hmc", "ensemble"], max_d=3, bounds="always", target_kinds=("gauss", "mix")))
    cfg["width_log"] = [draw(st.floats(-1, 4)) for _ in range(cfg["d"])]
    cfg["on_wall"] = draw(st.sampled_from([None, None, "lower", "upper"]))
    cfg["wall_i"] = draw(st.integers(0, cfg["d"] - 1))
    cfg["bounds"]["half"] = [10 ** draw(st.floats(-2, 0.7)) for _ in range(cfg["d"])]
    cfg["bounds"]["centre_mag"] = draw(st.sampled_from([0.0, 0.0, 1e3, -1e6]))
    # whole-number limits handed over in an integer / single-precision array, and boxes that are very wide
    cfg["bounds"]["dtype"] = draw(st.sampled_from([None, None, None, None, "int8", "int16", "int32", "float32"]))
    if draw(st.integers(0, 5)) == 0:
        cfg["bounds"]["half"] = [10 ** draw(st.floats(3, 12)) for _ in range(cfg["d"])]
    if cfg["bounds"]["dtype"] in ("int8", "int16") and draw(st.booleans()):
        # limits that use most of the range of their type (their width does not fit in it)
        top = 127 if cfg["bounds"]["dtype"] == "int8" else 32767
        cfg["bounds"]["abs_box"] = [[-draw(st.integers(top // 3, top + 1)) for _ in range(cfg["d"])], [draw(st.integers(top // 3, top)) for _ in range(cfg["d"])]]
    if cfg["cls"] == "hmc":
        cfg["hmc"]["eps_log"] = draw(st.floats(-2, 1.5))
    if cfg["cls"] == "ensemble":
        cfg["ens"]["alpha"] = draw(st.sampled_from([2.0, 5.0, 20.0, 100.0]))
    cfg["m"] = draw(st.sampled_from([1, 3, 10, 30]))
    cfg["reload"] = draw(st.sampled_from([False, False, True]))
    return cfg


def body_box(case, ctx):
    cfg = dict(case)
    cls = cfg["cls"]
    d = cfg["d"]
    # move the whole problem far from the origin if asked (bounds far from zero)
    shift = cfg["bounds"].get("centre_mag", 0.0) if not cfg["bounds"].get("abs_box") else 0.0
    tspec = dict(cfg["target"])
    if shift:
        if tspec["kind"] == "gauss":
            tspec["mean"] = [m + shift for m in tspec["mean"]]
        else:
            tspec["mu"] = [[v + shift for v in row] for row in tspec["mu"]]
        cfg["target"] = tspec
    if cfg["on_wall"] is not None and cls != "ensemble":
        u = list(cfg["start_u"])
        u[cfg["wall_i"]] = -1.0 if cfg["on_wall"] == "lower" else 1.0
        cfg["start_u"] = u
    tgt = Target(cfg["target"], record=True)
    try:
        ch, tgt, info = S.build(cfg, target=tgt)
    except ValueError as e:
        raise Violation(f"start-rejected:{cls}", f"start inside / on the wall of the box was rejected: {str(e).strip()[:120]}")
    lo, hi = info["box"]
    tol = 4 * EPS * np.maximum(np.abs(lo), np.abs(hi))
    grad = ch.grad if cls == "hmc" and cfg["hmc"]["grad"] else None
    with warnings.catch_warnings():
        warnings.simplefilter("ignore")
        with np.errstate(all="ignore"):
            try:
                ch.advance(cfg["m"])
            except ValueError as e:
                if cls == "hmc" and "maximum allowed attempts" in str(e):
                    ctx.event("hmc-max-attempts")
                else:
                    raise
    def check(points, what):
        for pt in points:
            bad = (pt < lo - tol) | (pt > hi + tol) | ~np.isfinite(pt)
            if bad.any():
                i = int(np.argmax(bad))
                side = "above" if pt[i] > hi[i] else "below"
                raise Violation(f"box-violated:{cls}:{what}", f"coordinate {i} = {pt[i]!r} is {side} the box [{lo[i]!r}, {hi[i]!r}] ({what}; start on wall: {cfg['on_wall']}, gradient: {cfg.get('hmc', {}).get('grad')})")
    if info.get("bounds_dtype") not in (None, "<class 'float'>"):
        ctx.event("limits held as " + info["bounds_dtype"])
    check([t for t, _ in tgt.trace], "posterior evaluation")
    if grad is not None:
        check(grad.points, "gradient evaluation")
    if cls != "ensemble" or ch.sample is not None:
        check(np.asarray(ch.get_sample(burn=0)), "stored sample")
    if cfg.get("reload"):
        # bounds given at construction stay in force for the sampler that comes back from save / load
        import os, shutil, tempfile
        from props.c09_save_load import load as load_sampler

        tmp = tempfile.mkdtemp(prefix="c04-", dir=os.environ.get("TMPDIR", "/tmp"))
        try:
            path = os.path.join(tmp, "chain.npz")
            with warnings.catch_warnings():
                warnings.simplefilter("ignore")
                ch.save(path)
                tgt2 = Target(cfg["target"], record=True)
                ch2 = load_sampler(cfg, path, tgt2)
                with np.errstate(all="ignore"):
                    try:
                        ch2.advance(cfg["m"])
                    except ValueError as e:
                        if not (cls == "hmc" and "maximum allowed attempts" in str(e)):
                            raise
            check([t for t, _ in tgt2.trace], "posterior evaluation after save/load")
            if cls == "hmc" and cfg["hmc"]["grad"]:
                check(ch2.grad.points, "gradient evaluation after save/load")
            check(np.asarray(ch2.get_sample(burn=0)), "stored sample after save/load")
            ctx.event("reloaded")
        finally:
            shutil.rmtree(tmp, ignore_errors=True)
    scale = (S.widths_of(cfg) if cls == "pca" else (hi - lo) * 3)
    ctx.nontrivial(bool(np.any(scale >= 3 * (hi - lo))) or cfg["on_wall"] is not None)
    ctx.event("cls=" + cls)
    ctx.event("on-wall=" + str(cfg["on_wall"]))
    if cls == "hmc":
        ctx.event("grad=" + str(cfg["hmc"]["grad"]))
    ctx.event("far-from-origin" if shift else "near-origin")


@st.composite
def outside_cases(draw):
    cfg = draw(S.sampler_configs(classes=["pca", "hmc", "ensemble"], max_d=3, bounds="always", target_kinds=("gauss",)))
    cfg["out_i"] = draw(st.integers(0, cfg["d"] - 1))
    cfg["out_by"] = draw(st.sampled_from([1e-9, 1e-3, 1.0, 100.0]))
    cfg["side"] = draw(st.sampled_from(["lower", "upper"]))
    return cfg


def body_outside(case, ctx):
    cfg = dict(case)
    cls = cfg["cls"]
    u = list(cfg["start_u"])
    u[cfg["out_i"]] = (1.0 + cfg["out_by"]) * (1 if cfg["side"] == "upper" else -1)
    cfg["start_u"] = u
    box = S.box_of(cfg)
    if cls == "ensemble":
        raise Inconclusive("ensemble positions are generated inside the box by construction")
    # bypass the clipping of the builder: construct directly
    from inference.mcmc import PcaChain, HamiltonianChain

    lo, hi = box
    start = lo + (np.array(u) + 1) / 2 * (hi - lo)
    if np.all((start >= lo) & (start <= hi)):
        raise Inconclusive("offset lost to rounding")
    tgt = Target(cfg["target"], record=False)
    try:
        with warnings.catch_warnings():
            warnings.simplefilter("ignore")
            if cls == "pca":
                PcaChain(posterior=tgt, start=start, widths=S.widths_of(cfg), bounds=(lo, hi))
            else:
                HamiltonianChain(posterior=tgt, start=start, bounds=(lo, hi), grad=tgt.grad)
    except ValueError:
        ctx.nontrivial(True)
        ctx.event("rejected:" + cls)
        return
    raise Violation(f"start-outside-accepted:{cls}", f"start {start} outside the box [{lo}, {hi}] was accepted")


SUBCHECKS = [
    Sub("folds", lambda t: fold_cases(), body_folds, quick=20000, thorough=400000, shards_quick=8, shards_thorough=16,
        rule="a coordinate folded >= 2 times"),
    Sub("gibbs-limits", lambda t: gibbs_cases(), body_gibbs, quick=800, thorough=15000, shards_quick=16, shards_thorough=16, weight=5,
        rule="proposal width >= 3x the allowed interval, or >= 2 limit-changing calls on one parameter"),
    Sub("box", lambda t: box_cases(), body_box, quick=800, thorough=15000, shards_quick=16, shards_thorough=16, weight=5,
        rule="proposal scale >= 3x the box, or start exactly on a wall"),
    Sub("start-outside", lambda t: outside_cases(), body_outside, quick=150, thorough=1500, shards_quick=2, shards_thorough=4,
        rule="every start outside the box (must raise ValueError)"),
]
