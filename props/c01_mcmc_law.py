"""C01 - MCMC samplers draw from the posterior the user supplied.

Two layers, as in the statement:
  * "proposals are reversible and every accept/reject decision is taken with the MH probability of the move proposed":
    proposal laws from N fresh samplers (first-evaluation trick, exact-null KS), and decision-level consistency
    reconstructed from the trace of a recording posterior with the acceptance probability the harness computes itself;
  * "the long-run law is the posterior (to the power 1/T)": exact one-step experiments from stationarity - x0 drawn exactly
    from pi^(1/T), one fresh sampler per replica, X1 = first proposal if the FIRST attempt was accepted else x0 - whose null
    law is exactly pi^(1/T) with no burn-in, adaptation or autocorrelation.  The same experiment with the stored sample
    after a complete step demonstrates the redraw-on-rejection loops (known finding).
"""
import warnings

import numpy as np
from hypothesis import strategies as st
from scipy import stats

from vlib import rngctl
from vlib import samplers as S
from vlib.targets import Target
from vlib.core import Sub, Violation, Inconclusive
from props.c08_tempering import poisson_binomial_tail

RULE = ("configurations = sampler class (Metropolis, Gibbs, PCA, HMC, ensemble) x d in 1..4 x temperature {1} u [0.3, 50] x proposal width / "
        "epsilon / alpha from 0.05x to 20x the target scale x bounds / Gibbs limits x HMC mass kind x target (correlated Gaussian, truncated "
        "Gaussian, exponential product, flat box, piecewise-constant cells); each statistical case runs N i.i.d. replicas with fresh samplers; "
        "non-trivial = T != 1 or limits / bounds or d >= 2 (laws), a history with >= 1 rejection and >= 1 acceptance (decisions)")
ASSUMPTIONS = ["exact-null tests only (KS against analytic CDFs, chi-square of standardised squared distances, chi-square on cells, exact Poisson-binomial); alarm at p < 1e-9 / 1000",
               "replicas are independent: every replica builds a fresh sampler whose generators are seeded from (case seed, running counter) by the harness",
               "targets are limited to families with exact samplers"]
P_FLOOR = 1e-9 / 1000.0


# ------------------------------------------------------------------ configuration strategy
@st.composite
def law_configs(draw, classes=("metropolis", "gibbs", "pca", "hmc", "ensemble"), min_d=1):
    cls = draw(st.sampled_from(list(classes)))
    d = draw(st.integers(max(min_d, 2 if cls == "pca" else 1), 3 if cls == "hmc" else 4))
    flavour = draw(st.sampled_from(["gauss", "gauss", "gauss", "box", "nonneg", "cells"]))
    if cls in ("hmc",) and flavour in ("cells", "nonneg"):
        flavour = "gauss"
    if cls in ("pca", "ensemble") and flavour == "nonneg":
        flavour = "box"
    cfg = {"seed": draw(st.integers(0, 2**31)), "cls": cls, "d": d, "flavour": flavour,
           "T": draw(st.sampled_from([1.0, 1.0, 0.5, 3.0, draw(st.floats(0.3, 50))])) if cls != "ensemble" else 1.0,
           "width_log": [draw(st.floats(-1.3, 1.3)) for _ in range(d)], "display_progress": False, "bounds": None, "limits": [],
           "limit_half": [1.0] * d, "start_u": [0.0] * d, "perm": draw(st.permutations(list(range(d))))}
    sd = [10 ** draw(st.floats(-0.7, 0.7)) for _ in range(d)]
    L = [[0.0] * d for _ in range(d)]
    for i in range(d):
        for j in range(i):
            L[i][j] = draw(st.floats(-0.7, 0.7)) * sd[i] if flavour == "gauss" else 0.0
        L[i][i] = sd[i]
    mean = [draw(st.floats(-2, 2)) for _ in range(d)]
    if flavour == "cells":
        m = draw(st.integers(2, 4))
        cfg["target"] = {"kind": "cells", "d": d, "lo": [v - 2 * s for v, s in zip(mean, sd)], "hi": [v + 2 * s for v, s in zip(mean, sd)], "m": m,
                         "logw": [draw(st.floats(-3, 0)) for _ in range(m**d)]}
        cfg["box_abs"] = [cfg["target"]["lo"], cfg["target"]["hi"]]
    elif flavour == "nonneg":
        cfg["target"] = {"kind": "expprod", "d": d, "rate": [1.0 / s for s in sd]}
        cfg["limits"] = ["nonneg"] * d
    else:
        cfg["target"] = {"kind": "gauss", "d": d, "mean": mean, "chol": L}
        if flavour == "box":
            lo = [m_ - draw(st.floats(0.2, 2.5)) * s for m_, s in zip(mean, sd)]
            hi = [m_ + draw(st.floats(0.2, 2.5)) * s for m_, s in zip(mean, sd)]
            cfg["box_abs"] = [lo, hi]
            if cls in ("gibbs", "metropolis") and d <= 2 and draw(st.booleans()):
                # the same parameters are also declared non-negative: the support is [max(lower, 0), upper]. The density is centred at
                # or above zero so that the support keeps a share of its mass (the exact reference sampler works by rejection)
                cfg["nonneg_too"] = draw(st.sampled_from(["before", "after"]))
                mean = [abs(m_) for m_ in mean]
                cfg["target"]["mean"] = mean
                lo = [m_ - draw(st.floats(0.2, 2.5)) * s_ for m_, s_ in zip(mean, sd)]
                hi = [m_ + draw(st.floats(0.3, 2.5)) * s_ for m_, s_ in zip(mean, sd)]
                cfg["box_abs"] = [lo, hi]
    if cls == "hmc":
        cfg["hmc"] = {"eps_log": draw(st.floats(-0.5, 0.25)), "mass": draw(st.sampled_from(["default", "scalar", "vector", "matrix", "matrix"])),
                      "mass_log": [draw(st.sampled_from([0.9, -0.9, draw(st.floats(-1.0, 1.0))])) for _ in range(d)], "mass_corr": draw(st.sampled_from([0.0, 0.45, -0.45, 0.65, draw(st.floats(-0.68, 0.68))])), "grad": True}
        if "box_abs" in cfg and cfg["hmc"]["mass"] == "matrix":
            cfg["hmc"]["mass"] = "vector"   # bounded + full-matrix mass is a recorded C07 finding: keep it out of the law experiments
    if cls == "ensemble":
        cfg["ens"] = {"extra_walkers": draw(st.integers(1, 5)), "alpha": draw(st.sampled_from([2.0, 2.0, 1.5, 3.0]))}
    return cfg


def box_of(cfg, declared=False):
    """the support implied by the limits (declared=True: the boundaries as handed to set_boundaries)"""
    if "box_abs" in cfg:
        lo, hi = np.array(cfg["box_abs"][0], dtype=float), np.array(cfg["box_abs"][1], dtype=float)
        if cfg.get("nonneg_too") and not declared:
            lo = np.maximum(lo, 0.0)
        return lo, hi
    return None


def make_sampler(cfg, start, tgt, positions=None):
    """fresh sampler at a given start (ensemble: given walker positions)"""
    from inference.mcmc import GibbsChain, PcaChain, HamiltonianChain, EnsembleSampler
    from inference.mcmc.gibbs import MetropolisChain

    cls = cfg["cls"]
    box = box_of(cfg)
    c, s = S.centre_scale(cfg)
    widths = s * 10.0 ** np.array(cfg["width_log"])
    with warnings.catch_warnings():
        warnings.simplefilter("ignore")
        if cls in ("gibbs", "metropolis"):
            C = GibbsChain if cls == "gibbs" else MetropolisChain
            ch = C(posterior=tgt, start=start, widths=widths, temperature=cfg["T"], display_progress=False)
            raw = box_of(cfg, declared=True)
            for i in range(cfg["d"]):
                if (cfg["limits"] and cfg["limits"][i] == "nonneg") or cfg.get("nonneg_too") == "before":
                    ch.set_non_negative(i, True)
                if box is not None:
                    ch.set_boundaries(i, (float(raw[0][i]), float(raw[1][i])))
                if cfg.get("nonneg_too") == "after":
                    ch.set_non_negative(i, True)
            return ch
        if cls == "pca":
            return PcaChain(posterior=tgt, start=start, widths=widths, temperature=cfg["T"], bounds=box, display_progress=False)
        if cls == "hmc":
            h = cfg["hmc"]
            inv_mass = None
            if h["mass"] == "scalar":
                inv_mass = float(np.mean(s) ** 2 * 10 ** h["mass_log"][0])
            elif h["mass"] == "vector":
                inv_mass = s**2 * 10.0 ** np.array(h["mass_log"])
            elif h["mass"] == "matrix":
                sdm = s * 10.0 ** (0.5 * np.array(h["mass_log"]))
                R = np.eye(cfg["d"])
                for i in range(1, cfg["d"]):
                    R[i, i - 1] = R[i - 1, i] = h["mass_corr"]
                inv_mass = R * np.outer(sdm, sdm)
            scale = 1.0 if inv_mass is None else (np.sqrt(np.max(np.linalg.eigvalsh(inv_mass))) if np.ndim(inv_mass) == 2 else np.sqrt(np.max(inv_mass)))
            eps = float(np.min(s)) * 10 ** h["eps_log"] / float(scale)
            ch = HamiltonianChain(posterior=tgt, start=start, grad=tgt.grad_T if False else tgt.grad, epsilon=eps, temperature=cfg["T"], bounds=box,
                                  inverse_mass=inv_mass, display_progress=False)
            return ch
        return EnsembleSampler(posterior=tgt, starting_positions=positions, alpha=cfg["ens"]["alpha"], bounds=box, display_progress=False)


class RecordingBounds:
    """duck-typed stand-in for inference.mcmc.Bounds that records the verdicts of inside()"""

    def __init__(self, lower, upper):
        from inference.mcmc import Bounds

        self._b = Bounds(lower=np.array(lower, dtype=float), upper=np.array(upper, dtype=float))
        self.lower, self.upper, self.width, self.n_bounds = self._b.lower, self._b.upper, self._b.width, self._b.n_bounds
        self.calls = []

    def inside(self, theta):
        v = bool(self._b.inside(theta))
        self.calls.append(v)
        return v

    def reflect(self, theta):
        return self._b.reflect(theta)

    def reflect_momenta(self, theta):
        return self._b.reflect_momenta(theta)

    def validate_start_point(self, *a, **k):
        return self._b.validate_start_point(*a, **k)


def exact_draws(cfg, tgt, gen, n):
    return tgt.sample(gen, n, T=cfg["T"], box=box_of(cfg))


def nontrivial(cfg):
    return cfg["T"] != 1.0 or "box_abs" in cfg or bool(cfg["limits"]) or cfg["d"] >= 2


def law_tests(cfg, tgt, X, key_prefix, what, ctx, coarse=False):
    """exact-null tests of X (N x d) against pi^(1/T) (restricted to the box)"""
    N, d = X.shape
    box = box_of(cfg)
    T = cfg["T"]
    kind = cfg["target"]["kind"]
    worst = 1.0
    sfx = (lambda name: "") if coarse else (lambda name: ":" + name)
    if box is not None and (np.any(X < box[0] - 1e-12) or np.any(X > box[1] + 1e-12)):
        raise Violation(f"{key_prefix}{sfx('outside-box')}", f"{what}: values outside the box")
    for i in range(d):
        cdf = tgt.marginal_cdf(i, T=T, box=box)
        if cdf is None:
            continue
        res = stats.kstest(X[:, i], cdf)
        ctx.stat(test="KS", what=f"{what} coordinate {i}", n=N, statistic=float(res.statistic), p=float(res.pvalue), threshold=P_FLOOR)
        worst = min(worst, res.pvalue)
        if res.pvalue < P_FLOOR:
            raise Violation(f"{key_prefix}{sfx('ks')}", f"{what}: coordinate {i} is not distributed as the target^(1/T) (T={T}): KS {res.statistic:.4f}, p = {res.pvalue:.3g}, N = {N}; "
                                                f"sample mean {X[:, i].mean():.4f}, sd {X[:, i].std():.4f}")
    if kind == "gauss" and box is None:
        r = X - tgt.mean
        q = np.einsum("ni,ij,nj->n", r, tgt.prec / T, r)
        stat = float(q.sum())
        p = 2 * min(stats.chi2(N * d).cdf(stat), stats.chi2(N * d).sf(stat))
        z = (stat - N * d) / np.sqrt(2 * N * d)
        ctx.stat(test="chi2-second-moment", what=what, n=N, statistic=z, p=p, threshold=P_FLOOR)
        worst = min(worst, p)
        if p < P_FLOOR:
            raise Violation(f"{key_prefix}{sfx('second-moment')}", f"{what}: sum of standardised squared distances {stat:.1f} for {N * d} degrees of freedom (z = {z:+.2f}, p = {p:.3g}) - "
                                                           f"variance ratio {stat / (N * d):.4f} (T={T})")
    if kind == "cells":
        probs = tgt.cell_probs(T).ravel()
        idx = np.minimum(((X - tgt.lo) / (tgt.hi - tgt.lo) * tgt.m).astype(int), tgt.m - 1)
        flat = np.ravel_multi_index(tuple(idx.T), [tgt.m] * d)
        counts = np.bincount(flat, minlength=probs.size)
        keep = probs * N >= 5
        if keep.sum() >= 2:
            obs = np.append(counts[keep], counts[~keep].sum())
            exp = np.append(probs[keep], probs[~keep].sum()) * N
            if exp[-1] == 0:
                obs, exp = obs[:-1], exp[:-1]
            chi = float(((obs - exp) ** 2 / exp).sum())
            p = float(stats.chi2(len(exp) - 1).sf(chi))
            ctx.stat(test="chi2-cells", what=what, n=N, statistic=chi, p=p, threshold=P_FLOOR)
            worst = min(worst, p)
            if p < P_FLOOR:
                raise Violation(f"{key_prefix}{sfx('cells')}", f"{what}: cell occupancy chi-square {chi:.1f} on {len(exp) - 1} dof (p = {p:.3g})")
    return worst


def permuted(cfg):
    """coordinate permutation of the target so that every coordinate's kernel acts first across cases"""
    return cfg


# ------------------------------------------------------------------ sub-check 3 / 4: one-step invariance from stationarity
def one_step(cfg, ctx, first_attempt):
    cls = cfg["cls"]
    d = cfg["d"]
    N = (6000 if ctx.tier == "quick" else 40000) if first_attempt else (40000 if ctx.tier == "quick" else 150000)
    if cls == "hmc":
        N = N // 2 if first_attempt else N // 4
        if first_attempt and cfg["hmc"]["mass"] == "matrix":
            N *= 5      # a momentum law that disagrees with the kinetic energy shows as a few-percent variance change after one trajectory
    if cls == "ensemble":
        N = int(N * 2.5) if first_attempt else N // 3
    if ctx.replay:
        N = max(N, 20000)
    gen = rngctl.rng(cfg["seed"], 41)
    tgt0 = Target(cfg["target"], record=False)
    nw = d + cfg["ens"]["extra_walkers"] + 1 if cls == "ensemble" else 1
    X0 = exact_draws(cfg, tgt0, gen, N * nw)
    X1 = np.empty((N, d))
    n_first_acc = 0
    for k in range(N):
        tgt = Target(cfg["target"], record=True)
        with np.errstate(all="ignore"):
            if cls == "ensemble":
                pos = X0[k * nw:(k + 1) * nw].copy()
                try:
                    ch = make_sampler(cfg, None, tgt, positions=pos.copy())
                except ValueError:
                    X1[k] = pos[0]      # degenerate walker configuration rejected by the constructor (measure ~0)
                    continue
                n0 = len(tgt.trace)
                rec = None
                if ch.bounds is not None:
                    # a proposal outside the bounds is a rejected attempt that never reaches the posterior: observe it
                    # through the public Bounds.inside of a recording stand-in for the sampler's public 'bounds'
                    rec = RecordingBounds(ch.bounds.lower, ch.bounds.upper)
                    ch.bounds = rec
                ch.advance(1)
                first = tgt.trace[n0][0]
                stored = np.asarray(ch.get_sample(burn=0))[0]
                if first_attempt:
                    if rec is not None and rec.calls and rec.calls[0] is False:
                        acc = False
                    else:
                        acc = np.array_equal(stored, first)
                    X1[k] = first if acc else pos[0]
                    n_first_acc += acc
                else:
                    X1[k] = stored
            else:
                x0 = X0[k].copy()
                ch = make_sampler(cfg, x0.copy(), tgt)
                n0 = len(tgt.trace)
                rec = None
                if cls == "pca" and getattr(ch, "bounds", None) is not None:
                    # (as for the ensemble sampler: a proposal that the sampler finds outside its bounds is a rejected attempt which
                    # never reaches the posterior - seen through the public Bounds.inside of a recording stand-in)
                    rec = RecordingBounds(ch.bounds.lower, ch.bounds.upper)
                    ch.bounds = rec
                ch.take_step()
                tr = tgt.trace[n0:]
                if first_attempt and rec is not None and rec.calls and rec.calls[0] is False:
                    X1[k] = x0
                elif first_attempt:
                    first = tr[0][0]
                    if cls == "gibbs" and d >= 2 or cls == "pca":
                        # coordinate / direction 0 acts first; accepted iff the next evaluation keeps its value
                        if cls == "gibbs":
                            acc = (len(tr) >= 2 and tr[1][0][0] == first[0]) if d >= 2 else len(tr) == 1
                        else:
                            tolv = 8 * np.finfo(float).eps * (np.abs(first) + 1.0 + (np.abs(box_of(cfg)[0]) + np.abs(box_of(cfg)[1]) if box_of(cfg) is not None else 0.0))
                            acc = len(tr) >= 2 and abs(first[0] - tr[1][0][0]) <= tolv[0]
                        x1 = x0.copy()
                        if acc:
                            x1 = first.copy()
                        X1[k] = x1
                    else:
                        acc = len(tr) == 1
                        X1[k] = first if acc else x0
                    n_first_acc += acc
                else:
                    X1[k] = np.asarray(ch.get_sample(burn=0))[-1]
    return tgt0, X1, N, n_first_acc


def body_first_attempt(case, ctx):
    cfg = case
    tgt, X1, N, n_acc = one_step(cfg, ctx, first_attempt=True)
    rate = n_acc / N
    ctx.event("cls=" + cfg["cls"])
    ctx.event("flavour=" + cfg["flavour"])
    ctx.event("T!=1" if cfg["T"] != 1 else "T=1")
    ctx.add("replicas", N)
    if rate < 0.02 or rate > 0.995:
        ctx.event("uninformative-acceptance-rate")
    law_tests(cfg, tgt, X1, f"first-attempt:{cfg['cls']}", f"{cfg['cls']} ({cfg['flavour']}, d={cfg['d']}): state after the first accept/reject decision from stationarity (acceptance {rate:.2f})", ctx)
    ctx.nontrivial(nontrivial(cfg) and 0.02 <= rate <= 0.995)


SITE = {"metropolis": "MetropolisChain.take_step", "gibbs": "GibbsChain.take_step", "pca": "PcaChain.take_step", "hmc": "HamiltonianChain.take_step",
        "ensemble": "EnsembleSampler.advance"}


def body_full_step(case, ctx):
    cfg = case
    tgt, X1, N, _ = one_step(cfg, ctx, first_attempt=False)
    ctx.event("cls=" + cfg["cls"])
    ctx.add("replicas", N)
    law_tests(cfg, tgt, X1, f"full-step:{SITE[cfg['cls']]}", f"{cfg['cls']} ({cfg['flavour']}, d={cfg['d']}): stored sample after one complete step from stationarity", ctx, coarse=True)
    ctx.nontrivial(nontrivial(cfg))


# ------------------------------------------------------------------ sub-check 1: proposal laws (first-evaluation trick)
def folded_normal_cdf(x0, w, lo, hi, images=60):
    """CDF on [lo, hi] of N(x0, w^2) folded (triangle wave) onto [lo, hi]"""
    L = hi - lo

    def cdf(y):
        y = np.asarray(y, dtype=float)
        tot = np.zeros_like(y)
        for k in range(-images, images + 1):
            a = lo + 2 * k * L
            tot += stats.norm.cdf(a + (y - lo), x0, w) - stats.norm.cdf(a - (y - lo), x0, w)
        return np.clip(tot, 0, 1)

    return cdf


def body_proposal_law(case, ctx):
    cfg = case
    cls = cfg["cls"]
    d = cfg["d"]
    N = 3000 if ctx.tier == "quick" else 30000
    tgt0 = Target(cfg["target"], record=False)
    c, s = S.centre_scale(cfg)
    widths = s * 10.0 ** np.array(cfg["width_log"])
    box = box_of(cfg)
    gen = rngctl.rng(cfg["seed"], 43)
    x0 = exact_draws(cfg, tgt0, gen, 1)[0]
    props = np.empty((N, d))
    zs = []
    nw = d + cfg["ens"]["extra_walkers"] + 1 if cls == "ensemble" else 1
    pos = exact_draws(cfg, tgt0, gen, nw) if cls == "ensemble" else None
    for k in range(N):
        tgt = Target(cfg["target"], record=True)
        with np.errstate(all="ignore"):
            if cls == "ensemble":
                try:
                    ch = make_sampler(cfg, None, tgt, positions=pos.copy())
                except ValueError:
                    raise Inconclusive("degenerate walker configuration")
                n0 = len(tgt.trace)
                ch.advance(1)
                props[k] = tgt.trace[n0][0]
            else:
                ch = make_sampler(cfg, x0.copy(), tgt)
                n0 = len(tgt.trace)
                ch.take_step()
                props[k] = tgt.trace[n0][0]
    what = f"{cls} ({cfg['flavour']}, d={d}) first proposal"
    if cls in ("gibbs", "metropolis", "pca"):
        coords = range(d) if cls == "metropolis" else [0]
        for i in coords:
            if cfg["limits"] and cfg["limits"][i] == "nonneg" and box is None:
                cdf = lambda y, i=i: np.where(np.asarray(y) < 0, 0.0, stats.norm.cdf(y, x0[i], widths[i]) - stats.norm.cdf(-np.asarray(y), x0[i], widths[i]))  # noqa: E731
                kind = "folded-at-zero"
            elif box is not None:
                cdf = folded_normal_cdf(x0[i], widths[i], box[0][i], box[1][i])
                kind = "reflected"
            else:
                cdf = stats.norm(x0[i], widths[i]).cdf
                kind = "plain"
            res = stats.kstest(props[:, i], cdf)
            if cls == "pca" and box is not None and res.pvalue < P_FLOOR:
                # a sampler whose directions need not be axis-parallel may equally treat a proposal outside the bounds as a proposal of
                # zero density, i.e. reject it (the fold is reversible for axis-parallel steps only): the first point at which the
                # posterior is evaluated is then the normal proposal restricted to the bounds - also a symmetric, reversible kernel
                za, zb = stats.norm.cdf(box[0][i], x0[i], widths[i]), stats.norm.cdf(box[1][i], x0[i], widths[i])
                cdf = lambda y, i=i, za=za, zb=zb: np.clip((stats.norm.cdf(y, x0[i], widths[i]) - za) / (zb - za), 0, 1)  # noqa: E731
                kind = "reflected / restricted-to-the-bounds"
                res = stats.kstest(props[:, i], cdf)
            ctx.stat(test="KS", what=f"{what} coordinate {i} ({kind})", n=N, statistic=float(res.statistic), p=float(res.pvalue), threshold=P_FLOOR)
            if res.pvalue < P_FLOOR:
                raise Violation(f"proposal-law:{cls}:{kind}", f"{what}: coordinate {i} does not follow the {kind} normal proposal of width {widths[i]:.4g} about {x0[i]:.4g}: KS {res.statistic:.4f}, p = {res.pvalue:.3g}")
        if cls != "metropolis" and d >= 2:
            other = np.delete(props, 0, axis=1) - np.delete(x0, 0)[None, :]
            ulp = 8 * np.finfo(float).eps * (np.abs(np.delete(x0, 0)) + (np.delete(np.abs(box[0]) + np.abs(box[1]), 0) if box is not None else 0.0))
            if np.any(np.abs(other) > ulp[None, :]):   # (the bounds fold is the identity inside the box only up to an ulp)
                raise Violation(f"proposal-law:{cls}:other-coordinates", f"{what}: coordinates other than the first moved in the first proposal")
    elif cls == "ensemble":
        # the proposal must lie on the line through walker 0 and another walker j, at stretch z in [1/alpha, alpha] from walker j,
        # with density proportional to z^(-1/2)
        alpha = cfg["ens"]["alpha"]
        Xi = pos[0]
        for k in range(N):
            Y = props[k]
            best = None
            for j in range(1, nw):
                u = Xi - pos[j]
                zz = float(np.dot(Y - pos[j], u) / np.dot(u, u))
                resid = np.linalg.norm((Y - pos[j]) - zz * u) / (np.linalg.norm(u) + 1e-300)
                in_range = 1 / alpha - 1e-9 <= zz <= alpha + 1e-9
                # in one dimension every walker is collinear with the proposal: any partner with an admissible stretch explains it
                score = (resid, 0) if d >= 2 else (0.0 if in_range else 1.0, 0)
                if best is None or score < best[3]:
                    best = (resid, zz, j, score)
            if box is None:
                if best[0] > 1e-9:
                    raise Violation("proposal-law:ensemble:not-on-line", f"{what}: proposal {Y} is not on a line through walker 0 and another walker (residual {best[0]:.3g})")
                if not (1 / alpha - 1e-9 <= best[1] <= alpha + 1e-9):
                    raise Violation("proposal-law:ensemble:stretch-range", f"{what}: proposal is X_j + z (X_i - X_j) with z = {best[1]:.4f}, outside [1/alpha, alpha] = [{1 / alpha:.3f}, {alpha:.3f}]")
                if d >= 2:
                    zs.append(best[1])
        if zs:
            a = alpha
            cdf = lambda z: np.clip((np.sqrt(np.asarray(z, dtype=float)) - np.sqrt(1 / a)) / (np.sqrt(a) - np.sqrt(1 / a)), 0, 1)  # noqa: E731
            res = stats.kstest(np.array(zs), cdf)
            ctx.stat(test="KS", what=f"{what} stretch law", n=len(zs), statistic=float(res.statistic), p=float(res.pvalue), threshold=P_FLOOR)
            if res.pvalue < P_FLOOR:
                raise Violation("proposal-law:ensemble:stretch-law", f"{what}: stretch factors do not follow g(z) ~ z^(-1/2) on [1/alpha, alpha]: KS {res.statistic:.4f}, p = {res.pvalue:.3g}")
    else:
        raise Inconclusive("HMC momenta are not observable from outside (the momentum law is checked in C07)")
    ctx.nontrivial(nontrivial(cfg))
    ctx.event("cls=" + cls)
    ctx.event("flavour=" + cfg["flavour"])


# ------------------------------------------------------------------ sub-check 2: decision-level MH consistency from traces
def decisions_from_trace(cfg, ch, tgt, n_steps):
    """drive the chain for n_steps and rebuild (a, accepted) for every accept/reject decision from outside"""
    cls = cfg["cls"]
    d = cfg["d"]
    T = cfg["T"]
    out = []
    for _ in range(n_steps):
        base = np.array(ch.get_last(), dtype=float, copy=True)
        L_base = tgt.logp(base)
        mark = len(tgt.trace)
        with np.errstate(all="ignore"):
            ch.take_step()
        tr = tgt.trace[mark:]
        stored = np.array(ch.get_last(), dtype=float)
        if cls == "metropolis":
            for k, (pt, val) in enumerate(tr):
                acc = k == len(tr) - 1
                out.append((pt, base.copy(), val, L_base, acc))
            if not np.array_equal(stored, tr[-1][0]):
                raise Violation("decisions:metropolis:stored-not-last-proposal", "the stored sample is not the last evaluated proposal")
        else:  # gibbs / axis-aligned pca: coordinate i varies until accepted
            i = 0
            cur, L_cur = base.copy(), L_base
            box = box_of(cfg)
            ulp = 8 * np.finfo(float).eps * (np.abs(base) + (np.abs(box[0]) + np.abs(box[1]) if box is not None else 0.0)) if cls == "pca" else np.zeros(d)
            k = 0
            while k < len(tr):
                pt, val = tr[k]
                diff = np.nonzero(np.abs(pt - cur) > ulp)[0]
                if len(diff) > 1 or (len(diff) == 1 and diff[0] != i):
                    return None   # structure not recognised (e.g. PCA after a direction update)
                nxt = tr[k + 1][0] if k + 1 < len(tr) else None
                if nxt is None:
                    acc = True
                elif i == d - 1:
                    acc = False
                else:
                    acc = abs(nxt[i] - pt[i]) <= ulp[i]
                    # a null move (proposal identical to the current value) followed by the next coordinate is an accepted null move
                out.append((pt, cur.copy(), val, L_cur, acc))
                if acc:
                    cur, L_cur = pt.copy(), val
                    i += 1
                k += 1
            if i != d or np.any(np.abs(stored - cur) > ulp):
                return None
    return out


@st.composite
def decision_configs(draw):
    cfg = draw(law_configs(classes=("metropolis", "gibbs", "gibbs", "pca")))
    cfg["width_log"] = [draw(st.floats(-1.3, 1.7)) for _ in range(cfg["d"])]
    cfg["steps"] = draw(st.integers(30, 90))
    cfg["cliff"] = draw(st.sampled_from([False, False, True]))
    # the chain may have been saved and restored part-way: the restored object is the same sampler at the same temperature
    cfg["reload_after"] = draw(st.sampled_from([None, None, draw(st.integers(1, 25))]))
    return cfg


def reloaded(cfg, ch, tgt):
    import os
    import tempfile
    from props.c09_save_load import load

    fd, path = tempfile.mkstemp(suffix=".npz")
    os.close(fd)
    try:
        ch.save(path)
        return load(cfg, path, tgt)
    finally:
        os.remove(path)


def body_decisions(case, ctx):
    cfg = dict(case)
    cls = cfg["cls"]
    if cfg["cliff"] and cfg["flavour"] == "gauss":
        cfg["target"] = {"kind": "cliff", "d": cfg["d"], "edges": list(cfg["target"]["mean"]), "height": 100.0}
    tgt = Target(cfg["target"], record=True)
    gen = rngctl.rng(cfg["seed"], 47)
    c, s = S.centre_scale(cfg)
    box = box_of(cfg)
    start = c + 0.3 * s * gen.normal(size=cfg["d"])
    if box is not None:
        start = np.clip(start, box[0] + 1e-3 * (box[1] - box[0]), box[1] - 1e-3 * (box[1] - box[0]))
    if cfg["limits"]:
        start = np.abs(start) + 0.1 * s
    ch = make_sampler(cfg, start, tgt)
    steps = min(cfg["steps"], 95) if cls == "pca" else cfg["steps"]     # PCA directions are axis-aligned for the first 100 steps
    k = cfg.get("reload_after")
    if k is not None and k < steps:
        dec = decisions_from_trace(cfg, ch, tgt, k)
        ch = reloaded(cfg, ch, tgt)
        rest = decisions_from_trace(cfg, ch, tgt, steps - k) if dec is not None else None
        dec = None if rest is None else dec + rest
        ctx.event("saved+restored part-way")
    else:
        dec = decisions_from_trace(cfg, ch, tgt, steps)
    if dec is None:
        raise Inconclusive("trace structure not recognised")
    T = cfg["T"]
    uncertain = []
    n_acc = n_rej = 0
    for pt, cur, L_new, L_old, acc in dec:
        x = (L_new - L_old) / T
        a = 1.0 if x >= 0 else float(np.exp(max(x, -800)))
        if x > 0 and not acc:
            raise Violation(f"decisions:{cls}:uphill-rejected", f"a proposal with higher tempered log-density ({L_new / T!r} vs {L_old / T!r}, T={T}) was rejected")
        if a < np.exp(-45) and acc and not np.array_equal(pt, cur):
            raise Violation(f"decisions:{cls}:impossible-accepted", f"a proposal with MH probability {a:.3g} (log-density {L_new!r} vs {L_old!r}, T={T}) was accepted")
        if np.exp(-45) <= a < 1.0:
            uncertain.append((a, acc))
        n_acc += acc
        n_rej += (not acc)
    if len(uncertain) >= 5:
        probs = [a for a, _ in uncertain]
        sacc = int(sum(k for _, k in uncertain))
        hi, lo = poisson_binomial_tail(probs, sacc)
        p = min(1.0, 2 * min(hi, lo))
        ctx.stat(test="poisson-binomial", what=f"{cls} {len(uncertain)} uncertain decisions, {sacc} accepted, expected {sum(probs):.1f}", p=p, threshold=P_FLOOR)
        ctx.add("uncertain_decisions", len(uncertain))
        ctx.add("accepted_minus_expected", sacc - sum(probs))
        ctx.add("variance", sum(a * (1 - a) for a in probs))
        if p < P_FLOOR:
            raise Violation(f"decisions:{cls}:acceptance-rate", f"{sacc} of {len(uncertain)} uncertain proposals accepted where the MH probabilities sum to {sum(probs):.1f} "
                                                                f"(exact Poisson-binomial p = {p:.3g}; T={T}, limits={cfg['limits'] or ('box' if box is not None else None)})")
    ctx.nontrivial(n_acc >= 1 and n_rej >= 1)
    ctx.event("cls=" + cls)
    ctx.event("T!=1" if T != 1 else "T=1")
    ctx.event("cliff" if cfg["cliff"] and cfg["flavour"] == "gauss" else cfg["flavour"])


@st.composite
def ensemble_decision_configs(draw):
    cfg = draw(law_configs(classes=("ensemble",), min_d=2))      # the partner walker is identified by collinearity: needs d >= 2
    cfg["flavour"] = "gauss"
    cfg.pop("box_abs", None)
    if cfg["target"]["kind"] != "gauss":
        d = cfg["d"]
        cfg["target"] = {"kind": "gauss", "d": d, "mean": [0.0] * d, "chol": [[1.0 if i == j else 0.0 for j in range(d)] for i in range(d)]}
    cfg["iterations"] = draw(st.integers(3, 25))
    cfg["spread"] = draw(st.sampled_from([1.0, 1.0, 3.0, 0.3]))
    # the public attempt limit: small values make "every attempt rejected" (the walker keeps its position) frequent
    cfg["max_attempts"] = draw(st.sampled_from([None, None, 1, 2, 3, 5]))
    return cfg


def body_ensemble_decisions(case, ctx):
    """every attempt of every walker, rebuilt from the trace: partner walker by collinearity, stretch z geometrically,
    MH probability min(1, z^(d-1) pi(Y)/pi(X_i)) computed by the harness"""
    cfg = case
    d = cfg["d"]
    if d < 2:
        raise Inconclusive("partner walker cannot be identified by collinearity in one dimension")
    tgt = Target(cfg["target"], record=True)
    gen = rngctl.rng(cfg["seed"], 53)
    nw = d + cfg["ens"]["extra_walkers"] + 1
    alpha = cfg["ens"]["alpha"]
    pos = tgt.sample(gen, nw, T=cfg["spread"] ** 2)
    try:
        ch = make_sampler(cfg, None, tgt, positions=pos.copy())
    except ValueError:
        raise Inconclusive("degenerate walker configuration")
    M = cfg.get("max_attempts") or int(ch.max_attempts)
    ch.max_attempts = M
    cur = pos.copy()
    uncertain = []
    n_acc = n_rej = n_failed = 0
    for it in range(cfg["iterations"]):
        mark = len(tgt.trace)
        with np.errstate(all="ignore"):
            ch.advance(1)
        tr = tgt.trace[mark:]
        new = np.asarray(ch.get_sample(burn=0))[-nw:]
        k = 0
        for i in range(nw):
            moved = not np.array_equal(new[i], cur[i])
            L_i = tgt.logp(cur[i])
            att = 0
            while True:
                if k >= len(tr):
                    if moved:
                        raise Violation("decisions:ensemble:stored-not-evaluated", f"walker {i}: the stored position was never evaluated")
                    break
                Y, L_Y = tr[k]
                k += 1
                att += 1
                acc = moved and np.array_equal(Y, new[i])
                best = None
                for j in range(nw):
                    if j == i:
                        continue
                    u = cur[i] - cur[j]
                    zz = float(np.dot(Y - cur[j], u) / np.dot(u, u))
                    resid = np.linalg.norm((Y - cur[j]) - zz * u) / (np.linalg.norm(u) + 1e-300)
                    if best is None or resid < best[0]:
                        best = (resid, zz, j)
                if best[0] > 1e-8:
                    raise Violation("decisions:ensemble:not-on-line", f"walker {i}: proposal {Y} is not on a line through the walker and a partner (residual {best[0]:.3g})")
                z = best[1]
                if not (1 / alpha - 1e-9 <= z <= alpha + 1e-9):
                    raise Violation("decisions:ensemble:stretch-range", f"walker {i}: stretch {z:.4f} outside [1/alpha, alpha]")
                x = (d - 1) * np.log(z) + (L_Y - L_i)
                a = 1.0 if x >= 0 else float(np.exp(max(x, -800)))
                if x > 1e-12 and not acc:
                    raise Violation("decisions:ensemble:certain-move-rejected", f"walker {i}: z^(d-1) pi(Y)/pi(X) = {np.exp(min(x, 50)):.4g} >= 1 (z={z:.3f}, d={d}) but the move was rejected")
                if a < np.exp(-45) and acc:
                    raise Violation("decisions:ensemble:impossible-accepted", f"walker {i}: move with MH probability {a:.3g} accepted")
                if np.exp(-45) <= a < 1.0:
                    uncertain.append((a, acc))
                n_acc += acc
                n_rej += (not acc)
                if acc:
                    cur[i] = new[i]
                    break
                if att >= M:
                    # every one of the walker's max_attempts proposals was rejected: it keeps its position for this iteration
                    if moved:
                        raise Violation("decisions:ensemble:moved-without-acceptance", f"walker {i} moved to {new[i]} although none of its {M} evaluated proposals is that point")
                    n_failed += 1
                    break
        if k != len(tr):
            raise Inconclusive("trace not fully explained")
    if len(uncertain) >= 5:
        probs = [a for a, _ in uncertain]
        sacc = int(sum(k for _, k in uncertain))
        hi, lo = poisson_binomial_tail(probs, sacc)
        p = min(1.0, 2 * min(hi, lo))
        ctx.stat(test="poisson-binomial", what=f"ensemble d={d} alpha={alpha}: {len(uncertain)} uncertain decisions, {sacc} accepted, expected {sum(probs):.1f}", p=p, threshold=P_FLOOR)
        ctx.add("uncertain_decisions", len(uncertain))
        ctx.add("accepted_minus_expected", sacc - sum(probs))
        ctx.add("variance", sum(a * (1 - a) for a in probs))
        if p < P_FLOOR:
            raise Violation("decisions:ensemble:acceptance-rate", f"d={d}, alpha={alpha}: {sacc} of {len(uncertain)} uncertain stretch moves accepted where the MH probabilities z^(d-1) pi(Y)/pi(X) sum to {sum(probs):.1f} (exact Poisson-binomial p = {p:.3g})")
    ctx.nontrivial(n_acc >= 1 and n_rej >= 1)
    ctx.event(f"d={d}")
    ctx.event(f"alpha={alpha}")
    ctx.event(f"max_attempts={M}")
    if n_failed:
        ctx.event("walker-updates-with-every-attempt-rejected")


@st.composite
def hmc_extreme_configs(draw):
    cfg = draw(law_configs(classes=("hmc",)))
    cfg["flavour"] = "gauss"
    cfg.pop("box_abs", None)
    cfg["hmc"]["eps_log"] = draw(st.floats(0.5, 1.6))      # far beyond the stability limit: wild trajectories
    cfg["steps"] = draw(st.integers(5, 25))
    return cfg


def body_hmc_extreme(case, ctx):
    """momenta are not observable, but a stored move whose tempered potential rises by more than the largest plausible kinetic
    energy plus 45 nats has MH probability < e^-45 whatever the momentum was"""
    cfg = case
    tgt = Target(cfg["target"], record=True)
    c, s = S.centre_scale(cfg)
    ch = make_sampler(cfg, c.copy(), tgt)
    ch.max_attempts = 40
    d = cfg["d"]
    bound = stats.chi2(d).isf(1e-15) / 2 + 45.0
    n_big = 0
    for _ in range(cfg["steps"]):
        before = tgt.logp(ch.get_last()) / cfg["T"]
        try:
            with np.errstate(all="ignore"):
                ch.take_step()
        except ValueError:
            ctx.event("max-attempts")
            break
        after = tgt.logp(ch.get_last()) / cfg["T"]
        if before - after > bound:
            raise Violation("decisions:hmc:impossible-accepted", f"a stored move lowers the tempered log-density by {before - after:.1f} nats (> chi2 tail/2 + 45 = {bound:.1f}): MH probability < e^-45 for any momentum")
        mark = [v for _, v in tgt.trace[-3:]]
        n_big += 1
    ctx.nontrivial(n_big >= 3)
    ctx.event("mass=" + cfg["hmc"]["mass"])


def _hmc_reversible_cases(tier):
    from props import c07_hmc_traj as c07

    return c07.cases()


def body_hmc_proposal_reversible(case, ctx):
    """'proposals are reversible': the trajectory map that generates Hamiltonian proposals, over T, bounds and mass kinds
    (same round-trip oracle as C07; a non-reversible proposal invalidates exp(H0 - H) as the MH probability)"""
    from props import c07_hmc_traj as c07

    c07.body_reversible(case, ctx)


# ------------------------------------------------------------------ a chain that has adapted: principal directions, proposal widths, step size
@st.composite
def adapted_pca_cases(draw):
    d = draw(st.sampled_from([2, 2, 3]))
    return {"seed": draw(st.integers(0, 2**31)), "d": d, "side": 10 ** draw(st.floats(-1, 1)), "lo": [draw(st.floats(-2, 2)) for _ in range(d)],
            "width_frac": draw(st.floats(0.15, 0.6)), "warm": draw(st.sampled_from([105, 130, 260])), "start_u": [draw(st.floats(0.1, 0.9)) for _ in range(d)]}


def body_adapted_pca(case, ctx):
    """PcaChain with bounds, after its first update of the principal directions, on a density that is flat on a cubic box.  The first
    attempt of a step - a move along the first direction, brought back inside the bounds or rejected there - is accepted whenever it
    is evaluated at all (the density is flat), so 'the state after the first attempt' is the pure proposal kernel and must leave the
    uniform distribution on the box invariant, which it does if the move is reversible.  (Only the first attempt: a rejected attempt
    is redrawn by the sampler - the recorded full-step finding - and a proposal that the sampler rejects for lying outside the bounds
    is such an attempt.)  The covariance of a uniform sample on a cube is a multiple of the identity plus noise, so the adapted
    directions are oblique to the coordinate axes."""
    import copy
    from inference.mcmc import PcaChain

    d, side = case["d"], case["side"]
    lo = np.array(case["lo"]) * side
    hi = lo + side
    spec = {"kind": "cells", "d": d, "lo": lo.tolist(), "hi": hi.tolist(), "m": 1, "logw": [0.0]}
    tgt = Target(spec, record=True)
    rngctl.reset(case["seed"])
    with warnings.catch_warnings():
        warnings.simplefilter("ignore")
        warm = PcaChain(posterior=tgt, start=lo + np.array(case["start_u"]) * side, widths=np.full(d, case["width_frac"] * side), bounds=(lo.copy(), hi.copy()), display_progress=False)
        warm.rng = rngctl.rng(case["seed"], 61)
        with np.errstate(all="ignore"):
            warm.advance(case["warm"])
    V = np.array(warm.directions)
    tgt.trace.clear()
    obliq = float(np.min(np.max(np.abs(V), axis=1)))        # 1 for axis-parallel directions, 1/sqrt(d) for fully oblique ones
    N = 4000 if ctx.tier == "quick" else 20000
    if ctx.replay:
        N = 20000
    gen = rngctl.rng(case["seed"], 62)
    X0 = lo + gen.random((N, d)) * side
    X1 = np.empty((N, d))
    for k in range(N):
        ch = copy.deepcopy(warm)
        ch.rng = rngctl.rng(case["seed"], 1000 + k)
        # (the documented way of installing a point - what the tempering workers do: replace_last and the point's own log-probability)
        ch.replace_last(X0[k].copy())
        ch.probs[-1] = 0.0 * ch.inv_temp          # (the flat density's value at any point of the box)
        rec = RecordingBounds(lo, hi)
        ch.bounds = rec
        ch.posterior.trace.clear()
        with np.errstate(all="ignore"):
            ch.take_step()
        # a sampler that finds the proposal outside its bounds rejects it before any evaluation; otherwise the first evaluated point
        # is the (possibly folded) proposal, accepted because the density is flat
        X1[k] = X0[k] if (rec.calls and rec.calls[0] is False) else ch.posterior.trace[0][0]
    if np.any(X1 < lo - 1e-9 * side) or np.any(X1 > hi + 1e-9 * side):
        raise Violation("adapted-pca:outside-box", "a sample outside the bounds")
    # uniformity: marginals (KS) and joint occupancy of 4^d equal cells (chi-square), exact under the null
    worst = 1.0
    for i in range(d):
        res = stats.kstest((X1[:, i] - lo[i]) / side, "uniform")
        ctx.stat(test="KS", what=f"adapted PCA coordinate {i}", n=N, statistic=float(res.statistic), p=float(res.pvalue), threshold=P_FLOOR)
        worst = min(worst, res.pvalue)
    m = 4
    idx = np.minimum(((X1 - lo) / side * m).astype(int), m - 1)
    counts = np.bincount(np.ravel_multi_index(tuple(idx.T), [m] * d), minlength=m**d)
    exp = N / m**d
    chi = float(((counts - exp) ** 2 / exp).sum())
    pchi = float(stats.chi2(m**d - 1).sf(chi))
    ctx.stat(test="chi2-cells", what="adapted PCA joint occupancy", n=N, statistic=chi, p=pchi, threshold=P_FLOOR)
    worst = min(worst, pchi)
    if worst < P_FLOOR:
        raise Violation("adapted-pca:not-invariant", f"PcaChain with bounds (flat density on a cube of side {side:.3g}, d={d}, proposal widths {[round(float(p_.sigma) / side, 3) for p_ in warm.params]} sides, "
                                                     f"directions after {case['warm']} steps {np.round(V, 3).tolist()}): one step from the uniform distribution does not give the uniform distribution - "
                                                     f"cell occupancy chi-square {chi:.1f} on {m**d - 1} dof (p = {pchi:.3g}), min marginal KS p = {worst:.3g}")
    ctx.nontrivial(obliq < 0.95)
    ctx.event("oblique directions" if obliq < 0.95 else "near-axis directions")
    ctx.event(f"d={d}")


@st.composite
def long_run_cases(draw):
    cls = draw(st.sampled_from(["gibbs", "pca", "hmc", "gibbs"]))
    d = draw(st.integers(1, 2)) if cls != "pca" else draw(st.integers(1, 2))
    # "far-limit": a half-normal on x >= 0 whose upper limit (1e20 .. 1e300) stands for "none" - as users write it
    return {"seed": draw(st.integers(0, 2**31)), "cls": cls, "d": d, "shape": draw(st.sampled_from(["flat", "broad", "broad", "far-limit"])),
            "far_log": draw(st.sampled_from([20.0, 30.0, 300.0])),
            "rel_sd": draw(st.floats(0.7, 3.0)), "lo": [draw(st.floats(-2, 2)) for _ in range(d)], "side": [10 ** draw(st.floats(-1, 1)) for _ in range(d)],
            # how the two limits of a Gibbs parameter are declared: as boundaries, or as non-negativity plus an upper boundary alone
            "limit_style": draw(st.sampled_from(["boundaries", "boundaries", "nonneg-then-upper", "upper-then-nonneg"])),
            "T": draw(st.sampled_from([1.0, 1.0, 10.0])), "steps": draw(st.sampled_from([4500, 6000])) if cls != "hmc" else draw(st.sampled_from([1200, 2000]))}


def body_long_run(case, ctx):
    """'for every realisation, any chain length': a parameter with two finite limits whose density is broad compared with them (a weakly
    constrained parameter, a hot rung of a tempering ladder) - or exactly flat - keeps being sampled from its truncated law however
    long the chain runs: the proposal width / step size adaptation must not drive the chain into a state from which it only ever
    returns one value.  Judged on the last third of the run, thinned to near-independence: KS against the exact truncated law, and the
    number of distinct values."""
    from inference.mcmc import GibbsChain, PcaChain, HamiltonianChain

    cls, d = case["cls"], case["d"]
    side = np.array(case["side"])
    lo = np.array(case["lo"]) * side
    style = case.get("limit_style", "boundaries") if cls == "gibbs" else "boundaries"
    if style != "boundaries":
        lo = np.zeros(d)
    hi = lo + side
    far = case["shape"] == "far-limit"
    if far:
        # support [0, 1e30]: the density N(0, side^2) restricted to x >= 0
        lo, hi, style = np.zeros(d), np.full(d, 10.0 ** case.get("far_log", 30.0)), "boundaries"
    centre = 0.5 * (lo + hi) if not far else np.zeros(d)
    sd = case["rel_sd"] * side if not far else side.copy()
    flat = case["shape"] == "flat"
    T = 1.0 if (flat or cls == "hmc") else case["T"]

    def logp(t):
        t = np.asarray(t, dtype=float)
        return 0.0 if flat else float(-0.5 * np.sum(((t - centre) / sd) ** 2))

    def grad(t):
        t = np.asarray(t, dtype=float)
        return np.zeros(d) if flat else -(t - centre) / sd**2

    rngctl.reset(case["seed"])
    with warnings.catch_warnings():
        warnings.simplefilter("ignore")
        if cls == "gibbs":
            ch = GibbsChain(posterior=logp, start=(centre if not far else side).copy(), widths=0.3 * side, temperature=T, display_progress=False)
            for i in range(d):
                if style == "boundaries":
                    ch.set_boundaries(i, (float(lo[i]), float(hi[i])))
                elif style == "nonneg-then-upper":
                    ch.set_non_negative(i, True)
                    ch.set_boundaries(i, (-np.inf, float(hi[i])))
                else:
                    ch.set_boundaries(i, (-np.inf, float(hi[i])))
                    ch.set_non_negative(i, True)
        elif cls == "pca":
            ch = PcaChain(posterior=logp, start=(centre if not far else side).copy(), widths=0.3 * side, temperature=T, bounds=(lo.copy(), hi.copy()), display_progress=False)
        else:
            ch = HamiltonianChain(posterior=logp, grad=grad, start=(centre if not far else side).copy(), epsilon=0.1 * float(side.min()), bounds=(lo.copy(), hi.copy()), display_progress=False)
    n = case["steps"]
    with np.errstate(all="ignore"), warnings.catch_warnings():
        warnings.simplefilter("ignore")
        ch.advance(n)
    Sm = np.asarray(ch.get_sample(burn=2 * n // 3), dtype=float).reshape(-1, d)
    if np.any(~np.isfinite(Sm)) or np.any(Sm < lo - 1e-9 * side) or np.any(Sm > hi + 1e-9 * side):
        raise Violation(f"long-run:outside:{cls}", "non-finite samples or samples outside the limits")
    for i in range(d):
        col = Sm[:, i]
        distinct = np.unique(col).size
        if distinct < 0.05 * col.size:
            raise Violation(f"long-run:collapsed:{cls}:{case['shape']}", f"{cls} on a {'flat' if flat else 'broad (sd %.2g x interval)' % case['rel_sd']} density limited to [{lo[i]:.4g}, {hi[i]:.4g}] (T={T}): "
                                                        f"the last {col.size} of {n} samples of parameter {i} take only {distinct} distinct values (mean {col.mean():.4g})")
        # thinned to near-independence (the wide, folded proposals of such a chain decorrelate within a few steps)
        thin = col[::25]
        sdT = sd[i] * np.sqrt(T)
        if flat:
            cdf = lambda x, a=lo[i], w=side[i]: np.clip((x - a) / w, 0, 1)
        elif far:
            cdf = lambda x, s_=sdT: np.clip(2 * stats.norm.cdf(x / s_) - 1, 0, 1)
        else:
            za, zb = (lo[i] - centre[i]) / sdT, (hi[i] - centre[i]) / sdT
            cdf = lambda x, c=centre[i], s_=sdT, za=za, zb=zb: (stats.norm.cdf((x - c) / s_) - stats.norm.cdf(za)) / (stats.norm.cdf(zb) - stats.norm.cdf(za))
        res = stats.kstest(thin, cdf)
        ctx.stat(test="KS", what=f"long run {cls} parameter {i}", n=thin.size, statistic=float(res.statistic), p=float(res.pvalue), threshold=1e-8)
        if res.pvalue < 1e-8:
            raise Violation(f"long-run:law:{cls}:{case['shape']}", f"{cls}, {n} steps, parameter {i} limited to [{lo[i]:.4g}, {hi[i]:.4g}]: the thinned tail of the chain is not distributed as the truncated target "
                                                  f"(KS {res.statistic:.3f}, p = {res.pvalue:.3g}, n = {thin.size}; mean {thin.mean():.4g}, sd {thin.std():.4g})")
    ctx.nontrivial(True)
    ctx.event("cls=" + cls)
    ctx.event("shape=" + case["shape"])
    ctx.event(f"T={T:g}")
    if cls == "gibbs":
        ctx.event("limits declared as " + style)


def _pt_cases():
    """'each chain run under parallel tempering': real ladders of Gibbs / Metropolis / PCA / Hamiltonian chains (worker processes);
    every exchange decision is judged against min(1, exp((1/T_i - 1/T_j)(L_j - L_i))) and every chain's current log-probability against
    its own evaluation (the C08 swap history - same generator and body - whose decision clauses are also C01's)"""
    from props import c08_tempering as c08

    return c08.swap_cases()


def _pt_body(case, ctx):
    from props import c08_tempering as c08

    return c08.body_swaps(case, ctx)


SUBCHECKS = [
    Sub("first-attempt", lambda t: law_configs(), body_first_attempt, quick=96, thorough=800, shards_quick=16, shards_thorough=16, weight=400,
        shrink_budget=(10, 60), case_timeout=(300, 900), rule="T != 1 or limits / bounds or d >= 2, with a first-attempt acceptance rate in [0.02, 0.995]"),
    Sub("proposal-law", lambda t: law_configs(classes=("metropolis", "gibbs", "pca", "ensemble")), body_proposal_law, quick=64, thorough=600, shards_quick=16,
        shards_thorough=16, weight=300, shrink_budget=(10, 60), case_timeout=(300, 900), rule="T != 1 or limits / bounds or d >= 2"),
    Sub("decisions", lambda t: decision_configs(), body_decisions, quick=400, thorough=8000, shards_quick=16, shards_thorough=16, weight=10,
        rule="a history with >= 1 rejection and >= 1 acceptance"),
    Sub("decisions-ensemble", lambda t: ensemble_decision_configs(), body_ensemble_decisions, quick=200, thorough=4000, shards_quick=8, shards_thorough=16, weight=20,
        rule="a history with >= 1 rejected and >= 1 accepted stretch move (d >= 2)"),
    Sub("hmc-proposal-reversible", _hmc_reversible_cases, body_hmc_proposal_reversible, quick=500, thorough=10000, shards_quick=8, shards_thorough=16,
        rule=">= 1 wall reflection, or matrix mass, or T != 1"),
    Sub("hmc-extreme", lambda t: hmc_extreme_configs(), body_hmc_extreme, quick=60, thorough=1500, shards_quick=6, shards_thorough=16, weight=20,
        rule=">= 3 stored moves taken with unstable step sizes"),
    Sub("tempering", lambda t: _pt_cases(), _pt_body, quick=48, thorough=1500, shards_quick=16, shards_thorough=16, weight=60,
        rule=">= 1 accepted and >= 1 rejected exchange with N >= 3"),
    Sub("adapted-pca-box", lambda t: adapted_pca_cases(), body_adapted_pca, quick=24, thorough=200, shards_quick=8, shards_thorough=16, weight=1500,
        shrink=False, case_timeout=(300, 900), rule="principal directions oblique to the axes (largest component below 0.95)"),
    Sub("long-run", lambda t: long_run_cases(), body_long_run, quick=48, thorough=400, shards_quick=8, shards_thorough=16, weight=800,
        shrink=False, case_timeout=(300, 900), rule="every case (thousands of steps on a bounded parameter with a broad or flat density)"),
    Sub("full-step", lambda t: law_configs(classes=("metropolis", "gibbs", "ensemble") if t == "quick" else ("metropolis", "gibbs", "ensemble", "pca", "hmc")), body_full_step, quick=32, thorough=160, shards_quick=8, shards_thorough=16,
        weight=3000, shrink_budget=(5, 30), case_timeout=(600, 1800), shrink=False, rule="T != 1 or limits / bounds or d >= 2"),
]
