"""C20 - conditional approximation evaluates and samples the true 1-D conditionals.

Oracles: exact CDF of the normalised piecewise-linear interpolant (piecewise quadratic, closed form) with
exact-null KS tests of i.i.d. draws; the closed-form CDF of a linear density on a cell for the inverse
transform; the true conditional obtained by evaluating the same posterior along the line through the
conditioning point and normalising it by adaptive quadrature.
"""
import warnings

import numpy as np
from hypothesis import strategies as st
from scipy import stats
from scipy.integrate import quad, simpson

from vlib import rngctl
from vlib.core import Sub, Violation, Inconclusive
from inference.approx.conditional import (piecewise_linear_sample, trapezium_transform, get_conditionals,
                                          conditional_sample)

RULE = ("(a) ascending grids of 2..40 points (uniform, and non-uniform with cell widths over 4 decades) x non-negative tables "
        "(flat, linear, spiky, zeros at the ends and inside); (b) (x, dh) over [0,1] x [-1,1] incl. |dh| around 1e-5; (c)/(d) posteriors "
        "(correlated Gaussian d<=4, products of gamma / log-normal / beta / logistic, rotated banana) with bounds 3..100 conditional "
        "widths from the mode and conditioning point within 3.5 widths of the conditional mode; non-trivial = non-uniform grid with a "
        "non-flat table (a), |dh| < 1e-3 (b), d >= 2 with correlation or a bound cutting the conditional (c, d)")
ASSUMPTIONS = ["tables have at least one positive entry", "KS tests fire at p < 1e-9 / 2000", "tabulated conditional within 3e-3 of the peak of the true conditional (64-point Simpson normalisation of skewed / cut densities delivers ~1e-3)",
               "conditionals are unimodal and the conditioning coordinate lies in their high-density region (quantifier of C20)"]
P_FLOOR = 1e-9 / 2000.0


# ------------------------------------------------------------------ (a) piecewise-linear sampling
@st.composite
def table_cases(draw):
    n = draw(st.integers(2, 40))
    grid = draw(st.sampled_from(["uniform", "nonuniform", "nonuniform", "geometric"]))
    if grid == "uniform":
        widths = [1.0] * (n - 1)
    elif grid == "geometric":
        r = draw(st.floats(1.05, 2.0))
        widths = [r**i for i in range(n - 1)]
    else:
        widths = [10 ** draw(st.floats(-2, 2)) for _ in range(n - 1)]
    shape = draw(st.sampled_from(["flat", "linear", "spiky", "free", "zero-ends", "zero-inside"]))
    if shape == "flat":
        p = [1.0] * n
    elif shape == "linear":
        a, b = draw(st.floats(0, 1)), draw(st.floats(0, 1))
        p = [max(a + (b - a) * i / (n - 1), 0.0) for i in range(n)]
    elif shape == "spiky":
        p = [draw(st.sampled_from([0.0, 0.01, 1.0, 50.0])) for _ in range(n)]
    else:
        p = [draw(st.floats(0, 1)) for _ in range(n)]
    if shape == "zero-ends":
        p[0] = p[-1] = 0.0
    if shape == "zero-inside" and n >= 4:
        i = draw(st.integers(1, n - 3))
        p[i] = p[i + 1] = 0.0
    p = [0.0 if v < 1e-9 else v for v in p]   # exact zeros are generated on purpose; denormal "densities" are not a table
    if max(p) <= 0:
        p[draw(st.integers(0, n - 1))] = 1.0
    return {"seed": draw(st.integers(0, 2**31)), "grid": grid, "widths": widths, "shape": shape, "p": p,
            "x0": draw(st.sampled_from([0.0, -3.0, 1e3])), "scale": 10 ** draw(st.one_of(st.floats(-3, 3), st.sampled_from([-10.0, 8.0, 10.0]))),
            # tables in any units (a normalised density of a parameter of natural scale 1e10 has values ~1e-10), normalised or not
            "pscale": 10 ** draw(st.one_of(st.floats(-3, 3), st.sampled_from([-14.0, -12.0, -9.0, 9.0, 12.0]))),
            # a table of counts (a histogram) held in an integer array - unsigned ones are non-negative by construction - on a grid of
            # whole numbers that may be held in an integer array as well
            "table_form": draw(st.sampled_from([None, None, None, "uint8", "uint16", "uint32", "int8", "int64", "float32"])),
            "grid_form": draw(st.sampled_from([None, None, "int64", "uint8", "int16"]))}


def pw_cdf_factory(x, p):
    """exact CDF of the normalised piecewise-linear interpolant of (x, p)"""
    x, p = np.asarray(x, dtype=float), np.asarray(p, dtype=float)
    dx = np.diff(x)
    cell = 0.5 * (p[1:] + p[:-1]) * dx
    cum = np.concatenate([[0.0], np.cumsum(cell)])
    total = cum[-1]

    def cdf(t):
        t = np.asarray(t, dtype=float)
        i = np.clip(np.searchsorted(x, t, side="right") - 1, 0, x.size - 2)
        u = np.clip((t - x[i]) / dx[i], 0.0, 1.0)
        part = dx[i] * (p[i] * u + 0.5 * (p[i + 1] - p[i]) * u * u)
        return np.clip((cum[i] + part) / total, 0.0, 1.0)

    return cdf, cell / total


def body_tables(case, ctx):
    x = case["x0"] * case["scale"] + np.concatenate([[0.0], np.cumsum(case["widths"])]) * case["scale"]
    p = np.array(case["p"], dtype=float) * case["pscale"]
    x_arg, p_arg = x.copy(), p.copy()
    if case.get("table_form"):
        # counts: whole numbers up to 100 (the reference below uses the same numbers as floats)
        p = np.round(np.array(case["p"], dtype=float) / max(case["p"]) * 100.0)
        p_arg = p.astype(case["table_form"])
        if case.get("grid_form") and case["grid"] == "uniform":
            x = np.arange(x.size, dtype=float) + (3.0 if case["grid_form"] != "int16" else -3.0)
            x_arg = x.astype(case["grid_form"])
        else:
            x_arg = x.copy()
        ctx.event("table held as " + case["table_form"] + (", grid as " + str(x_arg.dtype) if x_arg.dtype != float else ""))
    N = 4000 if ctx.tier == "quick" else 40000
    if ctx.replay:
        N = 40000
    with np.errstate(all="ignore"):
        draws = np.asarray(piecewise_linear_sample(x_arg, p_arg, N), dtype=float)
    if draws.shape != (N,):
        raise Violation("table-shape", f"{draws.shape} draws returned for n_samples={N}")
    if not np.all(np.isfinite(draws)) or draws.min() < x[0] or draws.max() > x[-1]:
        raise Violation("table-range", f"draws in [{draws.min()!r}, {draws.max()!r}] leave the grid [{x[0]!r}, {x[-1]!r}]")
    cdf, cell_prob = pw_cdf_factory(x, p)
    dead = np.nonzero(cell_prob == 0)[0]
    idx = np.clip(np.searchsorted(x, draws, side="right") - 1, 0, x.size - 2)
    strictly_inside = (draws > x[idx]) & (draws < x[idx + 1])
    bad = np.isin(idx, dead) & strictly_inside
    if bad.any():
        raise Violation("table-dead-cell", f"{int(bad.sum())} draws fall inside cells whose two end densities are zero")
    res = stats.kstest(draws, cdf)
    nonuniform = case["grid"] != "uniform"
    flat = case["shape"] == "flat"
    ctx.stat(test="KS", what=f"{case['grid']}/{case['shape']} n={x.size}", n=N, statistic=float(res.statistic), p=float(res.pvalue), threshold=P_FLOOR)
    if res.pvalue < P_FLOOR:
        cls = ("nonuniform-grid" if nonuniform else "uniform-grid")
        raise Violation(f"table-law:{cls}", f"{case['grid']} grid of {x.size} points, {case['shape']} table: KS statistic {res.statistic:.4f}, p = {res.pvalue:.3g} "
                                            f"against the piecewise-linear interpolant; cell probabilities {np.round(cell_prob[:6], 4).tolist()}...")
    ctx.nontrivial(nonuniform and not flat)
    ctx.event("grid=" + case["grid"])
    ctx.event("shape=" + case["shape"])


@st.composite
def bad_tables(draw):
    return {"seed": 0, "kind": draw(st.sampled_from(["descending", "repeat", "negative"])), "n": draw(st.integers(3, 10)),
            "i": draw(st.integers(0, 8))}


def body_bad_tables(case, ctx):
    n = case["n"]
    x = np.arange(n, dtype=float)
    p = np.ones(n)
    i = case["i"] % (n - 1)
    if case["kind"] == "descending":
        x[i + 1] = x[i] - 0.5
    elif case["kind"] == "repeat":
        x[i + 1] = x[i]
    else:
        p[i] = -0.1
    try:
        piecewise_linear_sample(x, p, 10)
    except ValueError:
        ctx.nontrivial(True)
        ctx.event(case["kind"])
        return
    raise Violation(f"table-errors:{case['kind']}", "invalid table accepted")


# ------------------------------------------------------------------ (b) inverse transform of a linear density
@st.composite
def transform_cases(draw):
    mode = draw(st.sampled_from(["generic", "switch", "tiny", "extreme"]))
    if mode == "generic":
        dh = draw(st.floats(-1, 1))
    elif mode == "switch":
        dh = draw(st.sampled_from([-1.0, 1.0])) * 1e-5 * (1 + draw(st.floats(-1e-3, 1e-3)))
    elif mode == "tiny":
        dh = draw(st.sampled_from([-1.0, 1.0])) * 10 ** draw(st.floats(-12, -3))
    else:
        dh = draw(st.sampled_from([-1.0, 1.0, 0.0, 1 - 1e-12, -1 + 1e-12]))
    return {"seed": 0, "mode": mode, "dh": dh, "xs": [draw(st.floats(0, 1)) for _ in range(draw(st.integers(1, 12)))],
            "mixed": draw(st.booleans())}


def body_transform(case, ctx):
    # x = 1 is never produced by Generator.random() (values lie in [0, 1)); x within 1e-12 of 1 combined with dh within
    # 1e-9 of -1 makes the discriminant round negative - probability < 1e-12 per draw, outside the generated domain
    xs = np.array(sorted([min(v, 1 - 1e-12) for v in case["xs"]] + [0.0, 1 - 1e-12]))
    dh = np.full(xs.size, case["dh"])
    if case["mixed"]:
        dh = dh.copy()
        dh[::2] = 0.3   # a call mixing both branches
    with np.errstate(all="ignore"):
        t = np.asarray(trapezium_transform(xs.copy(), dh.copy()), dtype=float)
    if t.shape != xs.shape or not np.all(np.isfinite(t)):
        raise Violation("transform-finite", f"dh={case['dh']!r}: result {t}")
    if np.any(t < -1e-9) or np.any(t > 1 + 1e-9):
        raise Violation("transform-range", f"dh={case['dh']!r}: values outside [0,1]: {t}")
    F = dh * t * t + (1 - dh) * t   # CDF of the density 1 + dh*(2t - 1) on [0, 1]
    err = np.max(np.abs(F - xs))
    ctx.ratio("transform", err, 1e-9)
    if err > 1e-9:
        branch = "near-zero" if abs(case["dh"]) < 1e-5 else "full"
        raise Violation(f"transform-inverse:{branch}", f"dh={case['dh']!r}: F(T(x)) - x = {err:.3g}")
    same = dh == dh[0]
    if same.all() and np.any(np.diff(t) < -1e-12):
        raise Violation("transform-monotone", f"dh={case['dh']!r}: not monotone")
    ctx.nontrivial(abs(case["dh"]) < 1e-3)
    ctx.event("mode=" + case["mode"])


# ------------------------------------------------------------------ (c), (d) conditionals of posteriors
class GaussPost:
    def __init__(self, mean, cov):
        self.mean, self.prec = np.asarray(mean), np.linalg.inv(cov)

    def __call__(self, th):
        r = np.asarray(th) - self.mean
        return float(-0.5 * r @ self.prec @ r)


class ProductPost:
    def __init__(self, kinds, a, loc, scale):
        self.kinds, self.a, self.loc, self.scale = kinds, a, np.asarray(loc), np.asarray(scale)

    def __call__(self, th):
        z = (np.asarray(th) - self.loc) / self.scale
        tot = 0.0
        for k, a, zi in zip(self.kinds, self.a, z):
            if k == "gamma":
                tot += (a - 1) * np.log(zi) - zi if zi > 0 else -1e300
            elif k == "lognormal":
                tot += -np.log(zi) - 0.5 * (np.log(zi) / (0.2 + 0.0375 * a)) ** 2 if zi > 0 else -1e300
            elif k == "beta":
                tot += (a - 1) * np.log(zi) + (a + 1) * np.log(1 - zi) if 0 < zi < 1 else -1e300
            else:
                tot += -zi - 2 * np.logaddexp(0.0, -zi)
        return float(tot)


class BananaPost:
    def __init__(self, angle, b, s):
        self.c, self.s_, self.b, self.s = np.cos(angle), np.sin(angle), b, s

    def __call__(self, th):
        u = (self.c * th[0] + self.s_ * th[1]) / self.s
        v = (-self.s_ * th[0] + self.c * th[1]) / self.s
        return float(-0.5 * u * u - 0.5 * (v - self.b * (u * u - 1)) ** 2 / 0.25)


@st.composite
def post_cases(draw):
    fam = draw(st.sampled_from(["gauss", "gauss", "product", "banana"]))
    d = 2 if fam == "banana" else draw(st.integers(1, 4))
    case = {"seed": draw(st.integers(0, 2**31)), "family": fam, "d": d,
            "log_scales": [draw(st.floats(-2, 2)) for _ in range(d)],
            "locs": [draw(st.sampled_from([0.0, 1.0, -20.0, 300.0])) for _ in range(d)],
            "corr": [draw(st.floats(-0.9, 0.9)) for _ in range(d * (d - 1) // 2)],
            "kinds": [draw(st.sampled_from(["gamma", "lognormal", "beta", "logistic"])) for _ in range(d)],
            "a": [draw(st.floats(2, 8)) for _ in range(d)],
            "angle": draw(st.floats(0, 3.1)), "b": draw(st.floats(0, 0.6)),
            "cond_off": [draw(st.floats(-1, 1)) for _ in range(d)],       # conditioning point, in marginal widths
            "own_off": [draw(st.floats(-3.5, 3.5)) for _ in range(d)],    # unused by construction (kept for shrinking stability)
            "lo_w": [draw(st.sampled_from([3.0, 6.0, 12.0, 40.0, 100.0, draw(st.floats(0.3, 3))])) for _ in range(d)],
            "hi_w": [draw(st.sampled_from([3.0, 6.0, 12.0, 40.0, 100.0, draw(st.floats(0.3, 3))])) for _ in range(d)]}
    # bounds that stand for "none" (+-1e10, +-1e12 are what users write): the conditioning coordinate is in the high-density region,
    # so the quantifier covers bounds millions to 1e12 conditional widths away (Gaussian family only: its far tails are harmless)
    case["far_bounds"] = draw(st.sampled_from([None, None, None, None, 1e6, 1e9, 1e12]))
    # a whole-number conditioning point may be held in an integer array
    case["int_point"] = draw(st.sampled_from([False, False, False, False, True]))
    if case["int_point"]:
        case["log_scales"] = [abs(v) * 0.75 + 0.3 for v in case["log_scales"]]     # widths >= 2 so that a whole number lies near the peak
    return case


def build_post(case):
    d = case["d"]
    sc = 10.0 ** np.array(case["log_scales"])
    loc = np.array(case["locs"]) * sc
    if case["family"] == "gauss":
        L = np.eye(d)
        k = 0
        for i in range(d):
            for j in range(i):
                L[i, j] = case["corr"][k]
                k += 1
        C = L @ L.T
        C = C / np.sqrt(np.outer(np.diag(C), np.diag(C)))
        cov = C * np.outer(sc, sc)
        post = GaussPost(loc, cov)
        centre, width = loc, sc
        correlated = d >= 2 and np.max(np.abs(C - np.eye(d))) > 0.1
    elif case["family"] == "product":
        post = ProductPost(case["kinds"], case["a"], loc, sc)
        modes, widths = [], []
        for k, a in zip(case["kinds"], case["a"]):
            if k == "gamma":
                modes.append(a - 1)
                widths.append(np.sqrt(a - 1))
            elif k == "lognormal":
                s = 0.2 + 0.0375 * a
                modes.append(np.exp(-s * s))
                widths.append(s * np.exp(-s * s))
            elif k == "beta":
                modes.append((a - 1) / (2 * a))
                widths.append(0.5 / np.sqrt(2 * a + 1))
            else:
                modes.append(0.0)
                widths.append(1.8)
        centre, width = loc + np.array(modes) * sc, np.array(widths) * sc
        correlated = False
    else:
        post = BananaPost(case["angle"], case["b"], sc[0])
        centre, width = np.zeros(2), np.array([sc[0], sc[0]])
        correlated = True
    return post, centre, width, correlated


def line_logp(post, theta, i, xs):
    out = np.empty(len(xs))
    t = np.array(theta, dtype=float)
    for k, x in enumerate(xs):
        t[i] = x
        out[k] = post(t)
    return out


def setup_problem(case):
    post, centre, width, correlated = build_post(case)
    d = case["d"]
    theta = centre + np.array(case["cond_off"]) * width
    if case.get("int_point"):
        theta = np.round(theta)
    bounds, cut = [], False
    info = []
    for i in range(d):
        # conditional through theta along axis i: locate its mode and width numerically
        xs = np.linspace(theta[i] - 12 * width[i], theta[i] + 12 * width[i], 4801)
        lp = line_logp(post, theta, i, xs)
        j = int(np.argmax(lp))
        mode = xs[j]
        if not np.isfinite(lp[j]) or lp[j] < -1e200:
            raise Inconclusive("conditioning point outside the support of the posterior")
        # the quantifier restricts C20 to unimodal conditionals: count the local maxima that rise above e^-12 of the peak
        rel = lp - lp[j]
        inner = rel[1:-1]
        peaks = np.nonzero((inner > rel[:-2]) & (inner >= rel[2:]) & (inner > -12.0))[0]
        if len(peaks) > 1:
            raise Inconclusive("conditional not unimodal along this line")
        above = xs[lp > lp[j] - 0.5]
        w = max(0.5 * (above[-1] - above[0]), 1e-6 * width[i])   # ~ one standard deviation of the conditional
        if abs(theta[i] - mode) > 3.5 * w:
            raise Inconclusive("conditioning coordinate outside the conditional's high-density region")
        far = case.get("far_bounds") if case["family"] == "gauss" else None
        lo, hi = mode - case["lo_w"][i] * w * (far or 1.0), mode + case["hi_w"][i] * w * ((far or 1.0) if i % 2 == 0 else 1.0)
        lo, hi = min(lo, theta[i] - 0.05 * w), max(hi, theta[i] + 0.05 * w)
        # support limits of the product families
        if case["family"] == "product" and case["kinds"][i] in ("gamma", "lognormal", "beta"):
            sc = 10.0 ** case["log_scales"][i]
            base = case["locs"][i] * sc
            lo = max(lo, base + 1e-9 * sc)
            if case["kinds"][i] == "beta":
                hi = min(hi, base + sc * (1 - 1e-9))
        cut = cut or case["lo_w"][i] < 4 or case["hi_w"][i] < 4
        scan = np.linspace(lo, hi, 1201)
        rel2 = line_logp(post, theta, i, scan)
        rel2 = rel2 - rel2.max()
        inner2 = rel2[1:-1]
        if np.count_nonzero((inner2 > rel2[:-2]) & (inner2 >= rel2[2:]) & (inner2 > -12.0)) > 1:
            raise Inconclusive("conditional not unimodal inside the bounds")
        bounds.append((float(lo), float(hi)))
        info.append((mode, w))
    return post, theta, bounds, info, correlated, cut


def check_conditionals(case, post, theta, bounds, info, axes, probs, ctx):
    d = case["d"]
    if axes.shape != probs.shape or axes.shape[1] != d:
        raise Violation("conditional-shape", f"axes {axes.shape}, probabilities {probs.shape} for {d} parameters")
    for i in range(d):
        x, p = axes[:, i], probs[:, i]
        lo, hi = bounds[i]
        mode, w = info[i]
        if np.any(np.diff(x) <= 0):
            raise Violation("conditional-grid", f"parameter {i}: grid not ascending")
        slack = 1e-9 * (abs(lo) + abs(hi))
        if x[0] < lo - slack or x[-1] > hi + slack:
            raise Violation("conditional-bounds", f"parameter {i}: grid [{x[0]!r}, {x[-1]!r}] leaves the bounds {bounds[i]}")
        if np.any(p < 0) or not np.all(np.isfinite(p)):
            raise Violation("conditional-negative", f"parameter {i}: density not finite / negative")
        area = simpson(p, x=x)
        if abs(area - 1) > 1e-10:
            raise Violation("conditional-normalised", f"parameter {i}: tabulated density integrates to {area!r}")
        # true conditional along the line, normalised over the grid span by adaptive quadrature
        lp_grid = line_logp(post, theta, i, x)
        ref = lp_grid.max()

        def dens(t):
            th = np.array(theta, dtype=float)
            th[i] = t
            return np.exp(post(th) - ref)

        edges = np.linspace(x[0], x[-1], 9)
        Z = sum(quad(dens, a, b, epsabs=0, epsrel=1e-10, limit=200)[0] for a, b in zip(edges[:-1], edges[1:]))
        true = np.exp(lp_grid - ref) / Z
        err = np.max(np.abs(p - true)) / true.max()
        ctx.ratio("conditional-match", err, 3e-3)
        if err > 1e-3:
            ctx.event("match-error>1e-3")
        if err > 3e-3:
            raise Violation("conditional-match", f"{case['family']} parameter {i}: tabulated density differs from the true conditional by {err:.3g} of its peak")
        # coverage of the part of the bounds where the conditional exceeds e^-7.9 of its peak
        scan = np.linspace(lo, hi, 6001)
        if hi - lo > 400 * w:
            # (bounds far wider than the conditional: look where the conditional is)
            scan = np.linspace(max(lo, mode - 15 * w), min(hi, mode + 15 * w), 6001)
        lps = line_logp(post, theta, i, scan)
        big = scan[lps > lps.max() - 7.9]
        step = scan[1] - scan[0]
        if big.size and (big[0] < x[0] - 2 * step or big[-1] > x[-1] + 2 * step):
            raise Violation("conditional-coverage", f"{case['family']} parameter {i}: conditional exceeds e^-7.9 of its peak on [{big[0]!r}, {big[-1]!r}] but the grid spans [{x[0]!r}, {x[-1]!r}] (bounds {bounds[i]})")


def point_arg(case, theta):
    return theta.astype(np.int64) if case.get("int_point") else theta.copy()


def body_conditionals(case, ctx):
    post, theta, bounds, info, correlated, cut = setup_problem(case)
    with warnings.catch_warnings():
        warnings.simplefilter("ignore")
        with np.errstate(all="ignore"):
            axes, probs = get_conditionals(posterior=post, bounds=bounds, conditioning_point=point_arg(case, theta))
    check_conditionals(case, post, theta, bounds, info, np.asarray(axes), np.asarray(probs), ctx)
    ctx.nontrivial((case["d"] >= 2 and correlated) or cut)
    ctx.event("family=" + case["family"])
    ctx.event(f"d={case['d']}")
    ctx.event("bound-cuts-conditional" if cut else "bounds-wide")
    ctx.event("conditioning-point=" + ("int64" if case.get("int_point") else "float64"))


def body_cond_sample(case, ctx):
    post, theta, bounds, info, correlated, cut = setup_problem(case)
    N = 3000 if ctx.tier == "quick" else 30000
    with warnings.catch_warnings():
        warnings.simplefilter("ignore")
        with np.errstate(all="ignore"):
            axes, probs = get_conditionals(posterior=post, bounds=bounds, conditioning_point=point_arg(case, theta))
            rngctl.reset(case["seed"])
            samples = np.asarray(conditional_sample(posterior=post, bounds=bounds, conditioning_point=point_arg(case, theta), n_samples=N))
    d = case["d"]
    if samples.shape != (N, d):
        raise Violation("sample-shape", f"samples {samples.shape} for n_samples={N}, {d} parameters")
    for i in range(d):
        col = samples[:, i]
        lo, hi = bounds[i]
        if col.min() < lo or col.max() > hi:
            raise Violation("sample-bounds", f"parameter {i}: samples in [{col.min()!r}, {col.max()!r}] leave the bounds {bounds[i]}")
        cdf, _ = pw_cdf_factory(axes[:, i], probs[:, i])
        res = stats.kstest(col, cdf)
        ctx.stat(test="KS", what=f"{case['family']} parameter {i}", n=N, statistic=float(res.statistic), p=float(res.pvalue), threshold=P_FLOOR)
        if res.pvalue < P_FLOOR:
            raise Violation("sample-law", f"{case['family']} parameter {i}: KS statistic {res.statistic:.4f}, p = {res.pvalue:.3g} against the tabulated conditional")
    ctx.nontrivial((d >= 2 and correlated) or cut)
    ctx.event("family=" + case["family"])


SUBCHECKS = [
    Sub("tables", lambda t: table_cases(), body_tables, quick=1500, thorough=20000, shards_quick=8, shards_thorough=16,
        rule="non-uniform grid with a table that is not flat"),
    Sub("bad-tables", lambda t: bad_tables(), body_bad_tables, quick=60, thorough=300, rule="every invalid-table class"),
    Sub("transform", lambda t: transform_cases(), body_transform, quick=3000, thorough=100000, shards_quick=3, shards_thorough=8,
        rule="|dh| < 1e-3 (both sides of the 1e-5 switch)"),
    Sub("conditionals", lambda t: post_cases(), body_conditionals, quick=400, thorough=6000, shards_quick=16, shards_thorough=16, weight=40,
        rule="d >= 2 with correlation, or a bound cutting the conditional"),
    Sub("conditional-sample", lambda t: post_cases(), body_cond_sample, quick=160, thorough=2000, shards_quick=16, shards_thorough=16, weight=60,
        rule="d >= 2 with correlation, or a bound cutting the conditional"),
]
