"""C17 - GP linear inversion returns the exact linear-Gaussian posterior.

Oracle: data-space closed form  mu = m + K A^T (A K A^T + S)^-1 (y - A m),
Sigma = K - K A^T (A K A^T + S)^-1 A K  (a different factorisation from the code's (I + K W)^-1 K),
evaluated in 40-digit mpmath for sizes <= 10 and by scipy otherwise, on reference kernels; the evidence
against an independent multivariate-normal log-density; the gradient against 5-point stencils.
"""
import warnings

import numpy as np
import mpmath as mp
import scipy.linalg as sla
from hypothesis import strategies as st

from vlib import rngctl  # noqa: F401
from vlib import refkernels as rk, gpcases as gc, numdiff
from vlib.core import Sub, Violation, Inconclusive
from inference.gp import GpLinearInverter

mp.mp.dps = 40
EPS = np.finfo(float).eps
LOG2PI = float(np.log(2 * np.pi))
RULE = ("cases = model matrix A (m x p, m,p in 1..14; dense, banded blur, repeated / zero columns and rows, tall, wide, square), "
        "data and errors over 1e-3..1e3, parameter positions in d = 1..2, kernel SE / RQ (+ white noise / sums), three means; "
        "non-trivial = (m != p or rank-deficient A) with >= 3 hyper-parameters and condition numbers <= 1e9")
ASSUMPTIONS = ["prior covariance K = the kernel's data-covariance builder (documented jitter and white-noise variance included)",
               "tolerance (1e-9 + 400*kappa*eps)*scale with kappa = min(cond(I + K W), cond(A K A^T + S)) - the better of the two standard forms; kappa > 1e9 inconclusive"]


@st.composite
def cases(draw, max_size=14):
    m = draw(st.one_of(st.integers(1, 5), st.integers(1, max_size)))
    p = draw(st.one_of(st.integers(2, 5), st.integers(2, max_size)))
    square_precise = draw(st.integers(0, 7)) == 0
    if square_precise:
        m = p = draw(st.integers(2, 7))      # an exactly determined model with precise data (see `reference`)
    base = draw(gc.gp_problems(max_n=p, min_n=p, max_d=2, max_m=1, kernels=["SE", "RQ", "White"], max_depth=2,
                               noises=("none",), allow_hetero=False))
    # gp_problems draws n in [min_n, min(6, max_n)] or [min_n, max_n]; force n == p by construction
    style = draw(st.sampled_from(["dense", "blur", "repeat-col", "zero-col", "zero-row", "repeat-row", "sparse"]))
    A = [[draw(st.floats(-1, 1)) for _ in range(p)] for _ in range(m)]
    base.update({"m": m, "p": p, "A_style": style, "A": A, "dup": [draw(st.integers(0, 13)), draw(st.integers(0, 13))],
                 "A_log_scale": draw(st.floats(-2, 2)),
                 # data errors relative to the signal; one case in five has precise data (errors down to 1e-6 of the signal)
                 "err_log": [draw(st.floats(-2.5, 0.5)) for _ in range(m)] if draw(st.integers(0, 4)) else [draw(st.floats(-6, -3)) for _ in range(m)],
                 "resid": [draw(st.floats(-3, 3)) for _ in range(m)],
                 "truth": [draw(st.floats(-2, 2)) for _ in range(p)],
                 "theta_form": draw(st.sampled_from(["float", "float", "float", "int64", "int32", "float32"]))})
    if square_precise:
        base.update({"square_precise": True, "A_style": "dense", "err_log": [draw(st.floats(-7, -4))] * m})
    return base


def build(case):
    X, _, xs, ys = gc.arrays(case)
    p, m = case["p"], case["m"]
    assert X.shape[0] == p
    A = np.array(case["A"], dtype=float).reshape(m, p)
    style = case["A_style"]
    i, j = case["dup"][0], case["dup"][1]
    if style == "blur":
        cols = np.arange(p)[None, :]
        rows = (np.arange(m)[:, None] + 0.5) * p / m
        A = np.exp(-0.5 * ((cols - rows) / 1.5) ** 2) * (1 + 0.1 * A)
    elif style == "repeat-col" and p >= 2:
        A[:, i % p] = A[:, j % p]
    elif style == "zero-col":
        A[:, i % p] = 0.0
    elif style == "zero-row":
        A[i % m, :] = 0.0
    elif style == "repeat-row" and m >= 2:
        A[i % m, :] = A[j % m, :]
    elif style == "sparse":
        A = np.where(np.abs(A) > 0.6, A, 0.0)
    A = A * 10.0 ** case["A_log_scale"]
    spec = case["kernel"]
    th_cov = gc.theta_from_unit(spec, case, X, ys)
    dummy_y = ys * np.array(case["truth"])
    th_mean = gc.mean_theta(case, X, dummy_y, ys)[: rk.mean_n_params(case["mean"], case["d"])]
    sig_scale = ys * (np.sqrt(np.sum(A**2, axis=1)) + 10.0 ** case["A_log_scale"] * 1e-3)
    y_err = sig_scale * 10.0 ** np.array(case["err_log"])
    y = A @ (ys * np.array(case["truth"])) + y_err * np.array(case["resid"])
    if case.get("theta_form") == "float32":
        # hyper-parameters that a single-precision array holds exactly (read from a float32 file, produced by a float32 optimiser)
        th_cov, th_mean = th_cov.astype(np.float32).astype(float), th_mean.astype(np.float32).astype(float)
    elif case.get("theta_form", "float") != "float":
        # whole-number hyper-parameters (which a caller may hold in an integer array)
        kinds = rk.param_kinds(spec, p, case["d"])
        rc = np.round(th_cov)
        if all(rc[i] > 0 for i, k in enumerate(kinds) if k == "width") and np.all(np.abs(rc) < 2**31) and np.all(np.abs(np.round(th_mean)) < 2**31):
            th_cov, th_mean = rc, np.round(th_mean)
    return X, A, y, y_err, spec, th_cov, th_mean


def theta_arg(case, theta):
    form = case.get("theta_form", "float")
    if form == "float32":
        t32 = theta.astype(np.float32)
        return t32 if np.array_equal(t32.astype(float), theta) else theta.copy()
    return theta.copy() if form == "float" or not np.array_equal(theta, np.round(theta)) else theta.astype(form)


def rank_deficient(A):
    return np.linalg.matrix_rank(A) < min(A.shape)


def reference(case, X, A, y, y_err, spec, th_cov, th_mean, use_mp=True):
    p, m = A.shape[1], A.shape[0]
    K = rk.ref_build(spec, X, th_cov)
    mean = rk.ref_mean(case["mean"], X, X, th_mean)
    S = np.diag(y_err**2)
    G = A @ K @ A.T + S
    W = A.T @ np.diag(y_err**-2.0) @ A
    with np.errstate(all="ignore"):
        # the conditioning of the PROBLEM: of whichever of the two standard forms of the posterior is the better conditioned (the
        # data-space form A K A^T + S for few data, the parameter-space form I + K W for many) - not of the one the implementation
        # happens to use: with precise data and fewer data than parameters I + K W has a condition number of (amplitude / error)^2
        # while the problem is as benign as A K A^T + S (an earlier version took the maximum of the two and so excused exactly that)
        kappa = min(np.linalg.cond(np.eye(p) + K @ W), np.linalg.cond(G))
        if case.get("square_precise") and m == p and np.linalg.cond(K) < 1e3:
            # exactly determined, full rank, precise data, a well-conditioned prior covariance: the prior hardly matters, the posterior is the weighted least-squares
            # solution with covariance (A^T S^-1 A)^-1, whose sensitivity to the inputs is cond(A)^2 (and that of the relative
            # spread of the errors) - both standard forms above have condition numbers of (amplitude / error)^2 here, which says
            # nothing about the problem
            kappa = min(kappa, 10.0 * np.linalg.cond(A) ** 2 * (y_err.max() / y_err.min()) ** 2)
    if not np.isfinite(kappa) or kappa > 1e9:
        return None, kappa
    r = y - A @ mean
    if use_mp and max(p, m) <= 10:
        Km, Am = mp.matrix(K.tolist()), mp.matrix(A.tolist())
        Gm = Am * Km * Am.T + mp.matrix(S.tolist())
        beta = mp.lu_solve(Gm, mp.matrix(r.tolist()) if False else (mp.matrix(y.tolist()) - Am * mp.matrix(mean.tolist())))
        KAt = Km * Am.T
        mu = mp.matrix(mean.tolist()) + KAt * beta
        cols = [mp.lu_solve(Gm, (Am * Km)[:, j]) for j in range(p)]  # G^-1 A K e_j
        Sig = np.array([[float(Km[i, j] - mp.fsum(KAt[i, k] * cols[j][k] for k in range(m))) for j in range(p)] for i in range(p)])
        mu = np.array([float(v) for v in mu])
        beta_f = np.array([float(v) for v in beta])
        rm = mp.matrix(y.tolist()) - Am * mp.matrix(mean.tolist())
        quad = float(mp.fsum(rm[i] * beta[i] for i in range(m)))
        logdet = float(mp.log(mp.det(Gm)))
    else:
        beta_f = sla.solve(G, r, assume_a="sym")
        mu = mean + K @ A.T @ beta_f
        Sig = K - K @ A.T @ sla.solve(G, A @ K, assume_a="sym")
        quad = float(r @ beta_f)
        logdet = float(np.linalg.slogdet(G)[1])
    lml = -0.5 * quad - 0.5 * logdet
    return {"mu": mu, "Sigma": Sig, "K": K, "mean": mean, "lml": lml,
            "scale_mu": np.abs(mean) + np.abs(K @ A.T) @ np.abs(beta_f) + 1e-300
            + 1e9 * gc.mean_roundoff(case["mean"], th_mean, X) * (1 + np.sum(np.abs(K @ A.T) @ np.abs(sla.pinv(G) @ A), axis=1)),
            "scale_lml": 0.5 * abs(quad) + 0.5 * float(np.sum(np.abs(np.log(np.abs(np.linalg.eigvalsh(G)))))) + m,
            # round-off of the documented mean function (eps*|x| per centred coordinate times the slope / curvature coefficients)
            # enters the evidence through the residual y - A m
            "ro_lml": 16 * gc.mean_roundoff(case["mean"], th_mean, X) * float(np.sum(np.abs(A).T @ np.abs(beta_f))),
            "G": G}, kappa


def make(case, X, A, y, y_err, spec):
    with warnings.catch_warnings():
        warnings.simplefilter("ignore")
        return GpLinearInverter(y=y.copy(), y_err=y_err.copy(), model_matrix=A.copy(), parameter_spatial_positions=X.copy(),
                                prior_covariance_function=rk.build_kernel(spec), prior_mean_function=rk.build_mean(case["mean"]))


def shape_tag(A, K=None, y_err=None):
    m, p = A.shape
    shape = "tall" if m > p else ("wide" if m < p else "square")
    if K is not None:
        # problems for which the standard form the library does NOT use is far better conditioned than the one it uses (the data-space
        # form A K A^T + S for m < p, the parameter-space form I + K W for m >= p - chosen by shape, not by conditioning): a nearly
        # singular prior covariance or a rank-deficient A with precise data and m >= p.  A class of its own, see known_findings.json
        with np.errstate(all="ignore"):
            c_par = np.linalg.cond(np.eye(p) + K @ (A.T @ np.diag(y_err**-2.0) @ A))
            c_dat = np.linalg.cond(A @ K @ A.T + np.diag(y_err**2))
        c_lib, c_other = (c_dat, c_par) if m < p else (c_par, c_dat)
        if np.isfinite(c_other) and c_lib > 100 * c_other:      # (100: the constant of the tolerance - beyond it the form used can exceed it)
            return shape + ":other-form-far-better-conditioned"
    return shape


def body_posterior(case, ctx):
    X, A, y, y_err, spec, th_cov, th_mean = build(case)
    theta = np.concatenate([th_mean, th_cov])
    ref, kappa = reference(case, X, A, y, y_err, spec, th_cov, th_mean)
    if ref is None:
        raise Inconclusive("ill-conditioned (kappa > 1e9)")
    inv = make(case, X, A, y, y_err, spec)
    tag = shape_tag(A, ref["K"], y_err)
    with np.errstate(all="ignore"):
        mu, Sig = inv.calculate_posterior(theta_arg(case, theta))
        mu_only = inv.calculate_posterior_mean(theta_arg(case, theta))
        lml = float(inv.marginal_likelihood(theta_arg(case, theta)))
        lml_g, _ = inv.marginal_likelihood_gradient(theta_arg(case, theta))
    mu, Sig, mu_only = (np.asarray(a, dtype=float) for a in (mu, Sig, mu_only))
    p = A.shape[1]
    if mu.shape != (p,) or Sig.shape != (p, p) or mu_only.shape != (p,):
        raise Violation(f"shape:{tag}", f"posterior shapes {mu.shape}, {Sig.shape}, mean-only {mu_only.shape} for p={p}")
    # (the constant in front of kappa * eps; kappa is that of the better of the two standard forms, see reference())
    CK = 100
    f = 1e-9 + CK * kappa * EPS
    dK = np.sqrt(np.maximum(np.diag(ref["K"]), 1e-300))
    # mean-only path: one solve, error ~ kappa*eps at the natural scale of the terms summed
    # (the rounding error of a linear solve is norm-wise: a component much smaller than the largest one inherits the kappa*eps error of
    # the largest)
    tol_only = f * ref["scale_mu"] + CK * kappa * EPS * float(np.max(ref["scale_mu"]))
    e = np.max(np.abs(mu_only - ref["mu"]) / tol_only)
    ctx.ratio("mean-only", e, 1.0)
    if not np.all(np.isfinite(mu_only)) or e > 1:
        i = int(np.argmax(np.abs(mu_only - ref["mu"]) / tol_only))
        raise Violation(f"mean:{tag}", f"A {A.shape} ({case['A_style']}), {rk.describe(spec)}, {case['mean']}: calculate_posterior_mean[{i}] {mu_only[i]!r} vs closed form {ref['mu'][i]!r} (tol {tol_only[i]:.3g}, kappa {kappa:.3g})")
    # full path: the documented result is (posterior covariance) @ A^T S^-1 (y - A m) + m, so the covariance's
    # rounding error (kappa*eps at the scale of the prior covariance) is multiplied by that data vector
    u = np.abs(A.T @ ((y - A @ ref["mean"]) / y_err**2))
    tol_full = f * (ref["scale_mu"] + dK * float(dK @ u)) + CK * kappa * EPS * float(np.max(ref["scale_mu"]))
    e = np.max(np.abs(mu - ref["mu"]) / tol_full)
    ctx.ratio("mean", e, 1.0)
    if not np.all(np.isfinite(mu)) or e > 1:
        i = int(np.argmax(np.abs(mu - ref["mu"]) / tol_full))
        raise Violation(f"mean:{tag}", f"A {A.shape} ({case['A_style']}), {rk.describe(spec)}, {case['mean']}: posterior mean[{i}] {mu[i]!r} vs closed form {ref['mu'][i]!r} (tol {tol_full[i]:.3g}, kappa {kappa:.3g})")
    dK = np.sqrt(np.maximum(np.diag(ref["K"]), 1e-300))
    tolc = f * np.outer(dK, dK)
    if case.get("square_precise"):
        # (here the posterior covariance is orders of magnitude below the prior: judged at its own scale)
        tolc = np.full_like(tolc, f * float(np.max(np.abs(ref["Sigma"]))))
        ctx.event("exactly determined, precise data")
    e = np.max(np.abs(Sig - ref["Sigma"]) / tolc)
    ctx.ratio("covariance", e, 1.0)
    if not np.all(np.isfinite(Sig)) or e > 1:
        i, j = np.unravel_index(int(np.argmax(np.abs(Sig - ref["Sigma"]) / tolc)), Sig.shape)
        raise Violation(f"covariance:{tag}", f"A {A.shape} ({case['A_style']}), {rk.describe(spec)}: posterior cov[{i},{j}] {Sig[i, j]!r} vs closed form {ref['Sigma'][i, j]!r} (tol {tolc[i, j]:.3g})")
    if np.max(np.abs(Sig - Sig.T) / tolc) > 2:
        raise Violation(f"covariance-symmetry:{tag}", f"posterior covariance asymmetric by {np.max(np.abs(Sig - Sig.T)):.3g}")
    sym = (Sig + Sig.T) / 2
    slack = 2 * p * np.max(tolc)
    if np.linalg.eigvalsh(sym).min() < -slack:
        raise Violation(f"covariance-psd:{tag}", f"posterior covariance eigenvalue {np.linalg.eigvalsh(sym).min():.3g}")
    if np.linalg.eigvalsh(ref["K"] - sym).min() < -slack:
        raise Violation(f"covariance-vs-prior:{tag}", f"prior - posterior covariance has eigenvalue {np.linalg.eigvalsh(ref['K'] - sym).min():.3g}")
    # the evidence IS a statement about A K A^T + S (its determinant, and a quadratic form in its inverse): its conditioning is that
    # matrix's, whichever form suits the posterior
    with np.errstate(all="ignore"):
        kappa_ev = float(np.linalg.cond(ref["G"]))
    if not np.isfinite(kappa_ev) or kappa_ev > 1e9:
        ctx.event("evidence-ill-conditioned")
        return
    tl = (1e-9 + 100 * kappa_ev * EPS) * ref["scale_lml"] + ref["ro_lml"]
    ctx.ratio("evidence", abs(lml - ref["lml"]), tl)
    if not np.isfinite(lml) or abs(lml - ref["lml"]) > tl:
        raise Violation(f"evidence:{tag}", f"marginal_likelihood {lml!r} vs log N(y; A m, A K A^T + S) + m/2 log 2pi = {ref['lml']!r} (tol {tl:.3g})")
    if abs(float(lml_g) - lml) > tl:
        raise Violation(f"evidence-gradient-value:{tag}", f"value from marginal_likelihood_gradient {float(lml_g)!r} vs {lml!r}")
    from scipy.stats import multivariate_normal

    try:
        sp = float(multivariate_normal.logpdf(y, mean=A @ ref["mean"], cov=ref["G"])) + 0.5 * A.shape[0] * LOG2PI
        if abs(sp - ref["lml"]) > 10 * tl + 1e-7 * ref["scale_lml"]:
            raise Violation("oracle-disagreement", f"scipy mvn {sp!r} vs reference {ref['lml']!r}")
    except (np.linalg.LinAlgError, ValueError):
        pass
    rd = rank_deficient(A)
    ctx.nontrivial((A.shape[0] != A.shape[1] or rd) and theta.size >= 3)
    ctx.event("shape=" + tag)
    ctx.event("rank-deficient" if rd else "full-rank")
    ctx.event("A_style=" + case["A_style"])
    ctx.event("kernel=" + spec["k"])
    ctx.event("mean=" + case["mean"])
    ctx.event("mp" if max(A.shape) <= 10 else "float64-ref")


def body_gradient(case, ctx):
    X, A, y, y_err, spec, th_cov, th_mean = build(case)
    theta = np.concatenate([th_mean, th_cov])
    p, m = A.shape[1], A.shape[0]
    K = rk.ref_build(spec, X, th_cov)
    with np.errstate(all="ignore"):
        kappa = np.linalg.cond(A @ K @ A.T + np.diag(y_err**2))
    if not np.isfinite(kappa) or kappa > 1e5:
        raise Inconclusive("ill-conditioned (kappa > 1e5) for stencils")
    inv = make(case, X, A, y, y_err, spec)
    tag = shape_tag(A)
    with np.errstate(all="ignore"):
        val, grad = inv.marginal_likelihood_gradient(theta_arg(case, theta))
        pv = float(inv.marginal_likelihood(theta_arg(case, theta)))
    grad = np.asarray(grad, dtype=float)
    if grad.shape != (theta.size,):
        raise Violation(f"gradient-shape:{tag}", f"gradient shape {grad.shape} for {theta.size} hyper-parameters")
    _, _, xs, ys = gc.arrays(case)
    span = gc.effective_span(X)
    kinds = ["mean"] * th_mean.size + rk.param_kinds(spec, p, case["d"])
    d = case["d"]

    def fplain(th):
        with np.errstate(all="ignore"):
            return float(inv.marginal_likelihood(th))

    for i in range(theta.size):
        if kinds[i] == "mean":
            h = 1e-3 * (ys if i == 0 else (ys / span[(i - 1) % d] if i <= d else ys / span[(i - 1 - d) % d] ** 2))
        elif kinds[i] == "width":
            h = min(2e-3 * abs(theta[i]), theta[i] / 16)
        elif kinds[i] == "loc":
            h = 2e-3 * abs(theta[i + 1])
        else:
            h = 2e-3
        err, tol, conv = numdiff.compare(grad[i], fplain, theta, i, h, rel=1e-5)
        if not conv:
            ctx.inconclusive["stencil-not-converged"] += 1
            continue
        tol = tol + 100 * kappa * EPS * (abs(pv) + m) / h + 1e-9 * np.max(np.abs(grad))
        ctx.ratio("evidence-gradient", err, tol)
        if not np.isfinite(err) or err > tol:
            raise Violation(f"evidence-gradient:{tag}:{kinds[i]}", f"A {A.shape}, {rk.describe(spec)}, {case['mean']}: d evidence / d theta[{i}] = {grad[i]!r}; stencil differs by {err:.3g} (tol {tol:.3g})")
    ctx.nontrivial((m != p or rank_deficient(A)) and theta.size >= 3)
    ctx.event("shape=" + tag)
    ctx.event("mean=" + case["mean"])
    ctx.event("theta-form=" + (case.get("theta_form", "float") if (np.array_equal(theta, np.round(theta)) or case.get("theta_form") == "float32") else "float"))


# ------------------------------------------------------------------ histories on one inverter object
@st.composite
def history_cases(draw):
    base = draw(cases(8))
    n_cov, n_mean = len(base["theta_u"]), len(base["mean_u"])
    alts = []
    for _ in range(draw(st.integers(1, 3))):
        what = draw(st.sampled_from(["cov", "cov", "mean", "both"]))
        tu = [draw(gc.unit) for _ in range(n_cov)] if what in ("cov", "both") else list(base["theta_u"])
        if what == "cov" and draw(st.booleans()):   # change a single covariance hyper-parameter only
            keep = draw(st.integers(0, n_cov - 1))
            tu = [v if i == keep else w for i, (v, w) in enumerate(zip(tu, base["theta_u"]))]
        mu = [draw(gc.unit) for _ in range(n_mean)] if what in ("mean", "both") else list(base["mean_u"])
        alts.append({"theta_u": tu, "mean_u": mu})
    base["alts"] = alts
    base["ops"] = draw(st.lists(st.tuples(st.sampled_from(["posterior", "mean", "evidence", "evidence-gradient"]),
                                          st.integers(0, len(alts)), st.sampled_from(["fresh", "shared", "shared"])),
                                min_size=2, max_size=8))
    return base


def body_history(case, ctx):
    """every answer of a long-lived inverter is the closed form for the hyper-parameters passed *in that call*, whatever was asked
    before and however the caller re-uses its hyper-parameter array"""
    X, A, y, y_err, spec, _, _ = build(case)
    _, _, xs, ys = gc.arrays(case)
    n_mean = rk.mean_n_params(case["mean"], case["d"])
    thetas, refs = [], []
    for alt in [{"theta_u": case["theta_u"], "mean_u": case["mean_u"]}] + case["alts"]:
        sub = dict(case)
        sub.update(alt)
        th_cov = gc.theta_from_unit(spec, sub, X, ys)
        th_mean = gc.mean_theta(sub, X, ys * np.array(case["truth"]), ys)[:n_mean]
        ref, kappa = reference(sub, X, A, y, y_err, spec, th_cov, th_mean, use_mp=False)
        if ref is None or kappa > 1e7:
            raise Inconclusive("ill-conditioned (kappa > 1e7)")
        thetas.append(np.concatenate([th_mean, th_cov]))
        refs.append((ref, kappa, y - A @ ref["mean"]))
    inv = make(case, X, A, y, y_err, spec)
    tag = shape_tag(A)
    buf = thetas[0].copy()
    last_shared, switched = None, 0
    for step, (what, j, how) in enumerate(case["ops"]):
        ref, kappa, resid = refs[j]
        f = 1e-8 + 1000 * kappa * EPS
        cls_tag = (":" + shape_tag(A, ref["K"], y_err)) if shape_tag(A, ref["K"], y_err).endswith("better-conditioned") else ""
        if how == "shared":
            buf[:] = thetas[j]
            arg = buf
            switched += last_shared is not None and last_shared != j
            last_shared = j
        else:
            arg = thetas[j].copy()
        dK = np.sqrt(np.maximum(np.diag(ref["K"]), 1e-300))
        u = np.abs(A.T @ (resid / y_err**2))
        tol_mu = f * (ref["scale_mu"] + dK * float(dK @ u))
        where = f"call {step} ({what}, hyper-parameter set {j} passed as a {how} array) on A {A.shape}, {rk.describe(spec)}, {case['mean']}"
        with np.errstate(all="ignore"):
            if what == "posterior":
                mu, Sig = (np.asarray(a, dtype=float) for a in inv.calculate_posterior(arg))
                e = np.max(np.abs(mu - ref["mu"]) / tol_mu)
                ec = np.max(np.abs(Sig - ref["Sigma"]) / (f * np.outer(dK, dK)))
                ctx.ratio("history", max(e, ec), 1.0)
                if not (e <= 1 and ec <= 1):
                    raise Violation(f"history:{what}" + cls_tag, f"{where}: posterior mean / covariance off by {e:.3g} / {ec:.3g} tolerances from the closed form")
            elif what == "mean":
                mu = np.asarray(inv.calculate_posterior_mean(arg), dtype=float)
                e = np.max(np.abs(mu - ref["mu"]) / tol_mu)
                ctx.ratio("history", e, 1.0)
                if not e <= 1:
                    raise Violation(f"history:{what}" + cls_tag, f"{where}: mean-only path off by {e:.3g} tolerances from the closed form")
            else:
                v = float(inv.marginal_likelihood(arg)) if what == "evidence" else float(inv.marginal_likelihood_gradient(arg)[0])
                kappa_ev = float(np.linalg.cond(ref["G"]))      # (the evidence's own conditioning: that of A K A^T + S)
                if not np.isfinite(kappa_ev) or kappa_ev > 1e9:
                    continue
                tl = (1e-8 + 1000 * kappa_ev * EPS) * ref["scale_lml"] + ref["ro_lml"]
                ctx.ratio("history", abs(v - ref["lml"]), tl)
                if not abs(v - ref["lml"]) <= tl:
                    raise Violation(f"history:{what}", f"{where}: evidence {v!r} vs closed form {ref['lml']!r} (tol {tl:.3g})")
    ctx.nontrivial(switched >= 1)
    ctx.event(f"shared-switches={min(switched, 3)}")
    ctx.event("shape=" + tag)


# ------------------------------------------------------------------ the same numbers in other array forms
@st.composite
def form_cases(draw):
    m, p, d = draw(st.integers(1, 6)), draw(st.integers(2, 6)), draw(st.integers(1, 2))
    pts = draw(st.lists(st.tuples(*[st.integers(-6, 6)] * d), min_size=p, max_size=p, unique=True))
    return {"seed": draw(st.integers(0, 2**31)), "m": m, "p": p, "d": d, "x": [list(t) for t in pts],
            "A": [[draw(st.integers(-3, 3)) for _ in range(p)] for _ in range(m)],
            "y": [draw(st.integers(-9, 9)) for _ in range(m)], "err": [draw(st.integers(1, 4)) for _ in range(m)],
            "kernel": draw(st.sampled_from([{"k": "SE"}, {"k": "RQ"}])), "mean": draw(st.sampled_from(["Constant", "Linear"])),
            "theta": [draw(st.floats(-1.2, 1.2)) for _ in range(8)],
            "forms": {k: draw(st.sampled_from(["float64", "int64", "int32", "int16", "int8", "uint8", "uint16", "float32", "fortran", "strided"])) for k in ("x", "A", "y", "err")},
            # the lattice spacing of the positions (optionally shifted to be non-negative) and the unit of the data and their errors
            "x_step": draw(st.sampled_from([1, 1, 20, 1000, 20000])), "x_shift": draw(st.booleans()), "y_step": draw(st.sampled_from([1, 1, 10, 50]))}


def body_forms(case, ctx):
    """whole-number data, errors, model matrix and positions are the same problem whether held as float64, integer, single-precision,
    Fortran-ordered or strided arrays"""
    from props.c02_gp_posterior import as_form, rescale_theta

    m, p, d = case["m"], case["p"], case["d"]
    X = np.array(case["x"], dtype=float).reshape(p, d)
    A, y, err = np.array(case["A"], dtype=float).reshape(m, p), np.array(case["y"], dtype=float), np.array(case["err"], dtype=float)
    spec = case["kernel"]
    n_theta = rk.mean_n_params(case["mean"], d) + rk.n_params(spec, p, d)
    theta = np.array(case["theta"][:n_theta], dtype=float)
    step, shift, ystep = float(case.get("x_step", 1)), (7.0 if case.get("x_shift") else 0.0), float(case.get("y_step", 1))
    X, y, err = (X + shift) * step, y * ystep, err * ystep
    theta = rescale_theta(theta, None, spec, case["mean"], d, p, step, ystep)
    f = case["forms"]

    def build(fx, fa, fy, fe):
        with warnings.catch_warnings():
            warnings.simplefilter("ignore")
            return GpLinearInverter(y=as_form(y, fy), y_err=as_form(err, fe), model_matrix=as_form(A, fa), parameter_spatial_positions=as_form(X, fx),
                                    prior_covariance_function=rk.build_kernel(spec), prior_mean_function=rk.build_mean(case["mean"]))

    ref, inv = build("float64", "float64", "float64", "float64"), build(f["x"], f["A"], f["y"], f["err"])
    with np.errstate(all="ignore"):
        try:
            mu0, S0 = ref.calculate_posterior(theta.copy())
            l0, (lg0, g0) = float(ref.marginal_likelihood(theta.copy())), ref.marginal_likelihood_gradient(theta.copy())
            mu1, S1 = inv.calculate_posterior(theta.copy())
            mo1 = inv.calculate_posterior_mean(theta.copy())
            l1, (lg1, g1) = float(inv.marginal_likelihood(theta.copy())), inv.marginal_likelihood_gradient(theta.copy())
        except np.linalg.LinAlgError:
            raise Inconclusive("singular")
    mu0, S0, mu1, S1, mo1, g0, g1 = (np.asarray(a, dtype=float) for a in (mu0, S0, mu1, S1, mo1, g0, g1))
    K = rk.ref_build(spec, X, theta[rk.mean_n_params(case["mean"], d):])
    with np.errstate(all="ignore"):
        kappa = min(np.linalg.cond(np.eye(p) + K @ (A.T @ np.diag(err**-2.0) @ A)), np.linalg.cond(A @ K @ A.T + np.diag(err**2)))
    if not np.isfinite(kappa) or kappa > 1e8 or not np.all(np.isfinite(mu0)):
        raise Inconclusive("ill-conditioned")
    tol = 1e-9 + 1000 * kappa * EPS
    what = ", ".join(f"{k}={v}" for k, v in f.items())
    pairs = [("posterior mean", mu1, mu0, np.max(np.abs(mu0)) + np.max(np.abs(y)) + 1), ("mean-only path", mo1, mu0, np.max(np.abs(mu0)) + np.max(np.abs(y)) + 1),
             ("posterior covariance", S1, S0, np.max(np.abs(S0)) + 1e-300), ("evidence", np.array([l1, float(lg1)]), np.array([l0, l0]), abs(l0) + m),
             ("evidence gradient", g1, g0, np.max(np.abs(g0)) + abs(l0) + m)]
    for name, got, want, scale in pairs:
        if got.shape != want.shape:
            raise Violation("forms-shape", f"[{what}] {name}: shape {got.shape} vs {want.shape} from float64 arrays")
        e = float(np.max(np.abs(got - want))) / (tol * scale)
        ctx.ratio("forms", e, 1.0)
        if not e <= 1:
            raise Violation("forms:" + "+".join(sorted({v for v in f.values() if v != "float64"})), f"A {A.shape}, {rk.describe(spec)}, {case['mean']}: {name} from [{what}] is {got.ravel()[:5].tolist()}, "
                            f"from float64 arrays of the same numbers {want.ravel()[:5].tolist()}")
    ctx.nontrivial(any(v not in ("float64", "fortran", "strided") for v in f.values()))
    for k, v in f.items():
        ctx.event(f"{k}:{v}")
    ctx.event(f"lattice spacing {int(step)}" + (", shifted" if shift else "") + f", data unit {int(ystep)}")


SUBCHECKS = [
    Sub("posterior", lambda t: cases(14 if t == "thorough" else 10), body_posterior, quick=1000, thorough=40000,
        shards_quick=10, shards_thorough=16, rule="(m != p or rank-deficient A) with >= 3 hyper-parameters, kappa <= 1e9"),
    Sub("gradient", lambda t: cases(10), body_gradient, quick=600, thorough=20000, shards_quick=6, shards_thorough=16,
        rule="(m != p or rank-deficient A) with >= 3 hyper-parameters, kappa <= 1e5"),
    Sub("history", lambda t: history_cases(), body_history, quick=600, thorough=20000, shards_quick=6, shards_thorough=16,
        rule="the same caller-owned array re-used in place for >= 2 different hyper-parameter sets on one inverter"),
    Sub("forms", lambda t: form_cases(), body_forms, quick=600, thorough=20000, shards_quick=6, shards_thorough=16,
        rule="some of y, errors, model matrix, positions held in an integer array"),
]
