"""C16 - GP derivative predictions are the derivatives of the GP prediction.

Oracle: 5-point stencils (Richardson-controlled) of the regressor's own predictive mean and variance in
each spatial direction; the gradient covariance against  d2K/dudv|_(q,q) - J (K+S)^-1 J^T  with J the
stencil Jacobian of the reference kernel row; kernels without derivative support must raise the
documented NotImplementedError.
"""
import warnings

import numpy as np
import scipy.linalg as sla
from hypothesis import strategies as st

from vlib import rngctl  # noqa: F401
from vlib import refkernels as rk, gpcases as gc, numdiff
from vlib.core import Sub, Violation, Inconclusive
from inference.gp import GpRegressor

EPS = np.finfo(float).eps
RULE = ("cases = SquaredExponential GP problems (n in 2..20, d in 1..3, three mean functions, noise none / y_err / y_cov, single and "
        "batched queries inside the data, at training points and outside); non-trivial = non-constant mean, or d >= 2, or batched "
        "query, with condition number <= 1e6")
ASSUMPTIONS = ["only SquaredExponential implements the derivative terms; other kernels must raise NotImplementedError",
               "stencil step 1e-3 of the shortest length-scale; tolerance max(1e-6 relative, 20x Richardson gap) + kappa-scaled round-off"]


def setup(case):
    X, y, xs, ys = gc.arrays(case)
    d, n = case["d"], case["n"]
    spec = case["kernel"]
    noise_kw, S = gc.noise_matrix(case, ys)
    th_cov = gc.theta_from_unit(spec, case, X, ys)
    th_mean = gc.mean_theta(case, X, y, ys)[: rk.mean_n_params(case["mean"], d)]
    Q = gc.queries(case, X, xs)
    return X, y, xs, ys, spec, noise_kw, S, th_cov, th_mean, Q


def fit(X, y, noise_kw, spec, mean_kind, theta_all):
    with warnings.catch_warnings():
        warnings.simplefilter("ignore")
        with np.errstate(all="ignore"):
            return GpRegressor(X, y, hyperpars=theta_all, kernel=rk.build_kernel(spec), mean=rk.build_mean(mean_kind), **noise_kw)


def body_derivatives(case, ctx):
    X, y, xs, ys, spec, noise_kw, S, th_cov, th_mean, Q = setup(case)
    d, n = case["d"], case["n"]
    K = rk.ref_build(spec, X, th_cov) + S
    with np.errstate(all="ignore"):
        kappa = np.linalg.cond(K)
    if not np.isfinite(kappa) or kappa > 1e6:
        raise Inconclusive("ill-conditioned (kappa > 1e6)")
    gp = fit(X.copy(), y.copy(), noise_kw, spec, case["mean"], np.concatenate([th_mean, th_cov]))
    m = Q.shape[0]
    tag = case["mean"]
    with np.errstate(all="ignore"):
        g_mu, g_cov = gp.gradient(Q.copy())
        s_mu, s_var = gp.spatial_derivatives(Q.copy())
    g_mu, g_cov, s_mu, s_var = (np.asarray(a, dtype=float) for a in (g_mu, g_cov, s_mu, s_var))
    # documented shapes: (M, d) and (M, d, d), squeezed
    exp_vec = tuple(k for k in (m, d) if k != 1)
    exp_mat = tuple(k for k in (m, d, d) if k != 1)
    if g_mu.shape != exp_vec or s_mu.shape != exp_vec or s_var.shape != exp_vec or g_cov.shape != exp_mat:
        raise Violation(f"shape:{tag}", f"M={m}, d={d}: gradient mean {g_mu.shape}, cov {g_cov.shape}; spatial_derivatives {s_mu.shape}, {s_var.shape}")
    g_mu, s_mu, s_var = (a.reshape(m, d) for a in (g_mu, s_mu, s_var))
    g_cov = g_cov.reshape(m, d, d)
    L = np.exp(th_cov[1:])
    a2 = np.exp(2 * th_cov[0])
    h = 1e-3 * L

    def mean_at(q):
        with np.errstate(all="ignore"):
            return float(gp.build_posterior(q.reshape(1, d), mean_only=True)[0])

    def var_at(q):
        with np.errstate(all="ignore"):
            return float(gp.build_posterior(q.reshape(1, d))[1][0, 0])

    alpha_abs = np.abs(gp.alpha)
    for k in range(m):
        q = Q[k]
        kq = rk.ref_call(spec, q.reshape(1, d), X, th_cov, n)[0]
        mu_scale = float(np.abs(kq) @ alpha_abs) + abs(mean_at(q)) + 1e-300
        for i in range(d):
            # round-off of the stencil: the kernel part (amplified by the condition number) and the mean function, whose centred
            # coordinates carry eps*|x| each times the slope / curvature coefficients
            # ... and of the stencil's abscissae: q +- h and the differences q - x_j carry eps*|coordinate| each, which moves a
            # function of slope |f'| by |f'|*eps*|coordinate| at both ends of the stencil
            arg_ro = 8 * EPS * max(abs(q[i]), float(np.max(np.abs(X[:, i])))) / h[i]
            floor_mu = (100 * kappa * EPS * mu_scale / h[i] + 16 * gc.mean_roundoff(case["mean"], th_mean, X, Q) / h[i]
                        + arg_ro * (abs(g_mu[k, i]) + mu_scale / L[i]))
            err, tol, conv = numdiff.compare(g_mu[k, i], mean_at, q, i, h[i])
            if not conv:
                ctx.inconclusive["stencil-not-converged"] += 1
                continue
            tol = tol + floor_mu + 1e-7 * ys / L[i]
            ctx.ratio("mean-gradient", err, tol)
            if not np.isfinite(err) or err > tol:
                raise Violation(f"mean-gradient:{tag}", f"gradient() mean d/dx{i} at query {k} = {g_mu[k, i]!r}; stencil of the predictive mean differs by {err:.3g} (tol {tol:.3g}); n={n}, d={d}")
            err2 = abs(s_mu[k, i] - g_mu[k, i])
            if err2 > tol:
                raise Violation(f"mean-gradient-forms:{tag}", f"spatial_derivatives mean {s_mu[k, i]!r} vs gradient() mean {g_mu[k, i]!r}")
            floor_v = 100 * kappa * EPS * a2 / h[i] + arg_ro * (abs(s_var[k, i]) + a2 / L[i])
            err, tol, conv = numdiff.compare(s_var[k, i], var_at, q, i, h[i])
            if not conv:
                ctx.inconclusive["stencil-not-converged"] += 1
                continue
            tol = tol + floor_v + 1e-7 * a2 / L[i]
            ctx.ratio("variance-gradient", err, tol)
            if not np.isfinite(err) or err > tol:
                raise Violation(f"variance-gradient:{tag}", f"spatial_derivatives variance d/dx{i} at query {k} = {s_var[k, i]!r}; stencil differs by {err:.3g} (tol {tol:.3g})")
        # gradient covariance = prior gradient covariance - explained part
        # Jacobian of the reference kernel row k(q, x_j) w.r.t. q, from the documented squared-exponential formula:
        # d/dq_i A^2 exp(-1/2 sum ((q - x)/l)^2) = (x_i - q_i)/l_i^2 * k(q, x)   (a stencil of the reference row is used as a
        # cross-check only where the coordinates are small enough for it to be accurate)
        J = np.array([(X[:, i] - q[i]) / L[i] ** 2 * kq for i in range(d)])
        if np.max(np.abs(q)) < 1e3 * np.min(L):
            for i in range(d):
                Js = numdiff.stencil(lambda qq: rk.ref_call(spec, qq.reshape(1, d), X, th_cov, n)[0], q, i, h[i] / 2)
                if np.max(np.abs(Js - J[i])) > 1e-5 * (np.max(np.abs(J[i])) + np.sqrt(a2) / L[i] * 1e-3):
                    raise AssertionError("oracle self-check failed: analytic and numerical kernel-row Jacobians disagree")
        prior = np.diag(a2 / L**2)
        ref = prior - J @ sla.solve(K, J.T, assume_a="sym")
        C = g_cov[k]
        sc = np.sqrt(np.outer(np.diag(prior), np.diag(prior)))
        tolc = (1e-6 + 1000 * kappa * EPS) * sc
        if np.max(np.abs(C - C.T) / tolc) > 1:
            raise Violation(f"gradient-cov-symmetry:{tag}", f"gradient covariance not symmetric: {C}")
        e = np.max(np.abs(C - ref) / tolc)
        ctx.ratio("gradient-covariance", e, 1.0)
        if not np.all(np.isfinite(C)) or e > 1:
            raise Violation(f"gradient-covariance:{tag}", f"gradient covariance {C.tolist()} vs prior - explained {ref.tolist()} (n={n}, d={d})")
        ev = np.linalg.eigvalsh((C + C.T) / 2)
        if ev.min() < -np.max(tolc) * d:
            raise Violation(f"gradient-cov-psd:{tag}", f"gradient covariance has eigenvalue {ev.min():.3g}")
    ctx.nontrivial((case["mean"] != "Constant" or d >= 2 or m >= 2))
    ctx.event(f"mean={case['mean']}")
    ctx.event(f"d={d}")
    ctx.event("batched" if m >= 2 else "single")
    ctx.event(f"noise={case['noise']}")
    kinds = {q["kind"] for q in case["queries"]}
    for kd in kinds:
        ctx.event("query=" + kd)


@st.composite
def unsupported_cases(draw):
    case = draw(gc.gp_problems(max_n=8, max_d=2, max_m=2, min_n=2, kernels=["SE", "RQ", "White"], max_depth=2,
                               noises=("none", "y_err")))
    return case


def body_unsupported(case, ctx):
    spec = case["kernel"]
    if spec["k"] == "SE":
        ctx.event("supported")
        return
    X, y, xs, ys, spec, noise_kw, S, th_cov, th_mean, Q = setup(case)
    with np.errstate(all="ignore"):
        kappa = np.linalg.cond(rk.ref_build(spec, X, th_cov) + S)
    if not np.isfinite(kappa) or kappa > 1e10:
        raise Inconclusive("ill-conditioned")
    gp = fit(X.copy(), y.copy(), noise_kw, spec, case["mean"], np.concatenate([th_mean, th_cov]))
    for name in ("gradient", "spatial_derivatives"):
        try:
            getattr(gp, name)(Q.copy())
        except NotImplementedError:
            continue
        raise Violation(f"unsupported:{spec['k']}", f"{name} returned for kernel {rk.describe(spec)} which has no derivative terms")
    ctx.nontrivial(True)
    ctx.event("unsupported=" + spec["k"])


def problems(tier):
    return gc.gp_problems(max_n=20 if tier == "thorough" else 12, max_d=3, max_m=3, min_n=2, kernels=["SE"], max_depth=1,
                          noises=("none", "y_err", "y_cov_full"))


# ------------------------------------------------------------------ histories on one regressor
@st.composite
def history_cases(draw):
    case = draw(gc.gp_problems(max_n=10, max_d=3, max_m=3, min_n=2, kernels=["SE"], max_depth=1, noises=("none", "y_err", "y_cov_full")))
    case["q_form"] = "array"
    alts = []
    for _ in range(draw(st.integers(1, 2))):
        what = draw(st.sampled_from(["cov", "cov", "mean", "both"]))
        alts.append({"theta_u": [draw(gc.unit) for _ in case["theta_u"]] if what != "mean" else list(case["theta_u"]),
                     "mean_u": [draw(gc.unit) for _ in case["mean_u"]] if what != "cov" else list(case["mean_u"])})
    case["alts"] = alts
    ops = []
    for _ in range(draw(st.integers(2, 7))):
        if draw(st.integers(0, 2)) == 0:
            ops.append({"op": "switch", "theta": draw(st.integers(0, len(alts))), "how": draw(st.sampled_from(["fresh", "same-array", "same-array"]))})
        else:
            ops.append({"op": draw(st.sampled_from(["gradient", "spatial_derivatives"]))})
    case["ops"] = ops
    return case


def body_history(case, ctx):
    """derivative predictions of a long-lived regressor are those of the hyper-parameters it holds now: compared, after every switch
    (also one made by editing in place the very array the regressor was given), with a regressor that has never been used"""
    X, y, xs, ys, spec, noise_kw, S, th_cov, th_mean, Q = setup(case)
    d, n = case["d"], case["n"]
    thetas = []
    for alt in [{"theta_u": case["theta_u"], "mean_u": case["mean_u"]}] + case["alts"]:
        sub = dict(case)
        sub.update(alt)
        tc = gc.theta_from_unit(spec, sub, X, ys)
        tm = gc.mean_theta(sub, X, y, ys)[: rk.mean_n_params(case["mean"], d)]
        with np.errstate(all="ignore"):
            kappa = np.linalg.cond(rk.ref_build(spec, X, tc) + S)
        if not np.isfinite(kappa) or kappa > 1e6:
            raise Inconclusive("ill-conditioned (kappa > 1e6)")
        thetas.append((np.concatenate([tm, tc]), kappa, tc))
    given = thetas[0][0].copy()           # the caller's own array, handed to the constructor
    gp = fit(X.copy(), y.copy(), noise_kw, spec, case["mean"], given)
    held, switched, inplace = 0, 0, 0
    for step, op in enumerate(case["ops"]):
        if op["op"] == "switch":
            new = thetas[op["theta"]][0]
            if op["how"] == "same-array":
                given[:] = new
                arg = given
                inplace += 1
            else:
                arg = new.copy()
            with np.errstate(all="ignore"), warnings.catch_warnings():
                warnings.simplefilter("ignore")
                gp.set_hyperparameters(arg)
            switched += held != op["theta"]
            held = op["theta"]
            continue
        theta, kappa, tc = thetas[held]
        twin = fit(X.copy(), y.copy(), noise_kw, spec, case["mean"], theta.copy())
        with np.errstate(all="ignore"):
            got = getattr(gp, op["op"])(Q.copy())
            want = getattr(twin, op["op"])(Q.copy())
        L, a2 = np.exp(tc[1:]), np.exp(2 * tc[0])
        f = 1e-8 + 1000 * kappa * EPS
        m = Q.shape[0]
        for name, g_, w_ in zip(("mean", "covariance" if op["op"] == "gradient" else "variance"), got, want):
            g_, w_ = np.asarray(g_, dtype=float), np.asarray(w_, dtype=float)
            if g_.shape != w_.shape:
                raise Violation(f"history-shape:{op['op']}", f"call {step}: shape {g_.shape} vs {w_.shape} from a never-used regressor")
            if name == "mean":
                scale = (np.max(np.abs(w_)) + ys / np.min(L)) * np.ones_like(w_)
            else:
                scale = (np.max(np.abs(w_)) + a2 / np.min(L) ** (2 if op["op"] == "gradient" else 1)) * np.ones_like(w_)
            e = float(np.max(np.abs(g_ - w_) / (f * scale))) if g_.size else 0.0
            ctx.ratio("history", e, 1.0)
            if not e <= 1:
                raise Violation(f"history:{op['op']}:{name}", f"call {step} ({op['op']} after {switched} hyper-parameter switches, {inplace} made in place on the array given "
                                                             f"to the constructor): {name} {g_.ravel()[:4].tolist()} vs {w_.ravel()[:4].tolist()} from a never-used regressor")
    ctx.nontrivial(switched >= 1)
    ctx.event(f"switches={min(switched, 2)}")
    ctx.event("in-place-switch" if inplace else "fresh-array-switches")


# ------------------------------------------------------------------ whole-number data / queries in other array forms
@st.composite
def form_cases(draw):
    d = draw(st.integers(1, 3))
    n = draw(st.integers(3, 7))
    pts = draw(st.lists(st.tuples(*[st.integers(-6, 6)] * d), min_size=n, max_size=n, unique=True))
    return {"seed": draw(st.integers(0, 2**31)), "d": d, "n": n, "x": [list(t) for t in pts], "y": [draw(st.integers(-9, 9)) for _ in range(n)],
            "err": [draw(st.integers(1, 3)) for _ in range(n)], "noise": draw(st.sampled_from(["none", "y_err"])),
            "q": [[draw(st.integers(-7, 7)) for _ in range(d)] for _ in range(draw(st.integers(1, 3)))],
            "mean": draw(st.sampled_from(["Constant", "Linear", "Quadratic"])), "theta": [draw(st.floats(-1.0, 1.5)) for _ in range(11)],
            "forms": {k: draw(st.sampled_from(["float64", "int64", "int32", "int16", "uint8", "uint16", "float32", "fortran", "strided"])) for k in ("x", "y", "err", "q")},
            # the lattice spacing of the coordinates, and whether they are shifted to be non-negative (unsigned types can hold them)
            "x_step": draw(st.sampled_from([1, 1, 20, 1000, 20000])), "x_shift": draw(st.booleans())}


def body_forms(case, ctx):
    from props.c02_gp_posterior import as_form, rescale_theta

    d, n = case["d"], case["n"]
    X, y, err, Q = (np.array(case[k], dtype=float) for k in ("x", "y", "err", "q"))
    X, Q = X.reshape(n, d), Q.reshape(-1, d)
    if np.ptp(y) == 0:
        raise Inconclusive("constant data")
    theta = np.array(case["theta"][: rk.mean_n_params(case["mean"], d) + 1 + d], dtype=float)
    step, shift = float(case.get("x_step", 1)), (7.0 if case.get("x_shift") else 0.0)
    X, Q = (X + shift) * step, (Q + shift) * step
    theta = rescale_theta(theta, None, {"k": "SE"}, case["mean"], d, n, step, 1.0)
    f = case["forms"]

    def build(fx, fy, fe):
        kw = {"y_err": as_form(err, fe)} if case["noise"] == "y_err" else {}
        return fit(as_form(X, fx), as_form(y, fy), kw, {"k": "SE"}, case["mean"], theta.copy())

    try:
        ref, gp = build("float64", "float64", "float64"), build(f["x"], f["y"], f["err"])
    except np.linalg.LinAlgError:
        raise Inconclusive("Cholesky failed")
    kappa = np.linalg.cond(ref.K_xx)
    if not np.isfinite(kappa) or kappa > 1e8:
        raise Inconclusive("ill-conditioned")
    tol = 1e-9 + 1000 * kappa * EPS
    what = ", ".join(f"{k}={v}" for k, v in f.items())
    for meth in ("gradient", "spatial_derivatives"):
        with np.errstate(all="ignore"):
            want = getattr(ref, meth)(Q.copy())
            got = getattr(gp, meth)(as_form(Q, f["q"]))
        for name, g_, w_ in zip(("mean", "covariance / variance"), got, want):
            g_, w_ = np.asarray(g_, dtype=float), np.asarray(w_, dtype=float)
            if g_.shape != w_.shape:
                raise Violation(f"forms-shape:{meth}", f"[{what}] {name}: shape {g_.shape} vs {w_.shape} from float64 arrays")
            sc = np.max(np.abs(w_)) + (np.max(np.abs(y)) + 1.0) / step        # (derivatives carry the inverse unit of the coordinates)
            e = float(np.max(np.abs(g_ - w_))) / (tol * sc) if g_.size else 0.0
            ctx.ratio("forms", e, 1.0)
            if not e <= 1:
                raise Violation(f"forms:{meth}:" + "+".join(sorted({v for v in f.values() if v != "float64"})), f"{case['mean']} mean, noise {case['noise']}: {meth}() {name} from [{what}] "
                                f"is {g_.ravel()[:4].tolist()}, from float64 arrays of the same numbers {w_.ravel()[:4].tolist()}")
    ctx.nontrivial(any(v not in ("float64", "fortran", "strided") for v in f.values()))
    for k, v in f.items():
        ctx.event(f"{k}:{v}")
    ctx.event(f"lattice spacing {int(step)}" + (", shifted" if shift else ""))


SUBCHECKS = [
    Sub("derivatives", problems, body_derivatives, quick=2500, thorough=60000, shards_quick=10, shards_thorough=16,
        rule="non-constant mean, or d >= 2, or batched query; kappa <= 1e6"),
    Sub("unsupported", lambda t: unsupported_cases(), body_unsupported, quick=150, thorough=2000, shards_quick=2, shards_thorough=4,
        rule="kernel without derivative support (RQ, white noise, sums, change-points)"),
    Sub("history", lambda t: history_cases(), body_history, quick=600, thorough=20000, shards_quick=6, shards_thorough=16,
        rule="one regressor whose hyper-parameters were switched at least once between derivative predictions"),
    Sub("forms", lambda t: form_cases(), body_forms, quick=600, thorough=20000, shards_quick=6, shards_thorough=16,
        rule="some of x, y, errors, queries held in an integer array"),
]
