"""C10 - covariance and mean functions are valid and their gradients are exact.

Oracles: reference kernels written from the documented formulas (vlib/refkernels.py, per-pair Python
arithmetic), eigenvalues of the implementation's own matrices, 5-point stencils of build_covariance
with Richardson error control, and concatenation of independently built components for composites.
"""
import warnings

import numpy as np
from hypothesis import strategies as st

from vlib import rngctl  # noqa: F401
from vlib import refkernels as rk, gpcases as gc, numdiff
from vlib.core import Sub, Violation, Inconclusive

RULE = ("cases = kernel spec from the grammar K := SE|RQ|White|Hetero|Sum(2..4)|ChangePoint(2..4, axis), depth<=3, "
        "point sets (free/grid/clustered/duplicated) in d=1..3 with n<=15, hyper-parameters drawn relative to the data "
        "scales; non-trivial = composite or change-point kernel, or d>=2")
ASSUMPTIONS = ["documented diagonal = 1e-12*A^2 jitter for SE/RQ, sigma^2 for white / heteroscedastic noise, weighted by the "
               "change-point coefficients inside a ChangePoint",
               "PSD to -100*n*eps*max|K|; value agreement to 1e-12*max|K|; gradients to max(1e-6 rel, 20x Richardson gap)"]
EPS = np.finfo(float).eps


def setup(case):
    X, y, xs, ys = gc.arrays(case)
    spec = case["kernel"]
    cov = rk.build_kernel(spec)
    try:
        pre = case.get("earlier_data")
        if pre:
            # the same kernel object served another (smaller / larger) data set before - as it does inside GpOptimiser, which hands
            # one kernel object to every regressor it fits - and was asked for bounds and a matrix there
            n, d = X.shape
            g = np.random.Generator(np.random.PCG64(int(pre["seed"])))
            spread = np.where(X.std(axis=0) > 0, X.std(axis=0), 1.0)[None, :]
            if pre.get("dd"):
                # the earlier data set had another number of dimensions - and, if there is one, the number of points for which the kernel
                # has the same total number of hyper-parameters as now (split differently between its components)
                def max_axis(sp):
                    return max([sp.get("axis", 0) if sp["k"] == "CP" else 0] + [max_axis(q) for q in sp.get("parts", [])])

                d_e = max(1, d + pre["dd"], max_axis(spec) + 1)      # (a change-point kernel needs the axis it divides)
                n_e = next((k for k in range(1, n + 8) if d_e != d and rk.n_params(spec, k, d_e) == rk.n_params(spec, n, d)), max(1, n + pre["dn"]))
                Xe = g.normal(size=(n_e, d_e))
                cov.pass_spatial_data(Xe)
                with np.errstate(all="ignore"), warnings.catch_warnings():
                    warnings.simplefilter("ignore")
                    cov.estimate_hyperpar_bounds(g.normal(size=n_e))
            elif pre["dn"] < 0:
                Xe = X[: max(1, n + pre["dn"])]
            elif pre["dn"] == 0:
                Xe = X + spread * g.normal(size=(n, d))     # same size, different points
            else:
                Xe = np.vstack([X, X.mean(axis=0)[None, :] + spread * g.normal(size=(pre["dn"], d))])
            if not pre.get("dd"):
                cov.pass_spatial_data(Xe)
                with np.errstate(all="ignore"), warnings.catch_warnings():
                    warnings.simplefilter("ignore")
                    cov.estimate_hyperpar_bounds(g.normal(size=Xe.shape[0]))
                    if Xe.shape[0] == n or not rk.has(spec, "Hetero"):
                        cov.build_covariance(gc.theta_from_unit(spec, case, X, ys))
        # (the coordinate array handed over is the caller's: it is overwritten here once the kernel has it, and the kernel goes on
        # answering for the points it was given)
        X_given = X.copy()
        cov.pass_spatial_data(X_given)
        X_given *= 3.0
        X_given += 1.0
    except Exception as e:
        raise Violation(f"pass_spatial_data:{classify(spec, case['d'])}", f"{type(e).__name__}: {e}")
    theta = gc.theta_from_unit(spec, case, X, ys)
    if cov.n_params != theta.size:
        raise Violation("n_params", f"{rk.describe(spec)}: n_params {cov.n_params}, documented layout has {theta.size}")
    return X, y, xs, ys, spec, cov, theta


def classify(spec, d):
    """coarse configuration class used in violation keys"""
    if rk.has(spec, "Hetero") and d >= 2:
        return "hetero:d>=2"
    if rk.max_cp_kernels(spec) >= 3:
        return "cp>=3"
    if rk.has(spec, "CP"):
        return "cp2"
    if spec["k"] == "Sum":
        return "sum"
    return spec["k"]


def nontrivial(case):
    return case["kernel"]["k"] in ("Sum", "CP") or case["d"] >= 2


def events(case, ctx):
    spec = case["kernel"]
    ctx.event("kernel=" + ("CP%d" % rk.max_cp_kernels(spec) if rk.has(spec, "CP") else spec["k"]))
    ctx.event(f"d={case['d']}")
    ctx.event("depth=%d" % rk.depth(spec))
    ctx.event("x_style=" + case["x_style"])
    ctx.event("kernel-object=" + ("served-other-data-before" if case.get("earlier_data") else "new"))


def call(cov, U, V, theta, spec, d):
    try:
        with np.errstate(all="ignore"):
            return np.asarray(cov(U, V, theta), dtype=float)
    except Exception as e:
        raise Violation(f"call-raises:{classify(spec, d)}", f"{rk.describe(spec)}: __call__ raised {type(e).__name__}: {e}")


def body_value(case, ctx):
    X, y, xs, ys, spec, cov, theta = setup(case)
    d, n = case["d"], case["n"]
    Q = gc.queries(case, X, xs)
    cls = classify(spec, d)
    Kxx = call(cov, X, X, theta, spec, d)
    Kqx = call(cov, Q, X, theta, spec, d)
    Kxq = call(cov, X, Q, theta, spec, d)
    if Kxx.shape != (n, n) or Kqx.shape != (Q.shape[0], n):
        raise Violation(f"shape:{cls}", f"K(x,x) {Kxx.shape}, K(q,x) {Kqx.shape} for n={n}, m={Q.shape[0]}")
    if not np.array_equal(Kxx, Kxx.T):
        raise Violation(f"symmetry:{cls}", f"K(x,x) not symmetric, max asym {np.max(np.abs(Kxx - Kxx.T))}")
    if not np.array_equal(Kqx, Kxq.T):
        raise Violation(f"transpose:{cls}", f"K(q,x) != K(x,q)^T, max diff {np.max(np.abs(Kqx - Kxq.T))}")
    ref = rk.ref_call(spec, X, X, theta, n)
    refq = rk.ref_call(spec, Q, X, theta, n)
    scale = max(np.max(np.abs(ref)), 1e-300)
    err = max(np.max(np.abs(Kxx - ref)), np.max(np.abs(Kqx - refq)))
    ctx.ratio("value", err, 1e-12 * scale)
    if not np.all(np.isfinite(Kxx)) or err > 1e-12 * scale:
        raise Violation(f"value:{cls}", f"{rk.describe(spec)}: max |K - documented formula| = {err:.3g} on scale {scale:.3g}")
    ev = np.linalg.eigvalsh(Kxx)
    tol = 100 * n * EPS * np.max(np.abs(Kxx))
    ctx.ratio("psd", max(-ev.min(), 0.0), tol if tol > 0 else 1e-300)
    if ev.min() < -tol:
        raise Violation(f"psd:{cls}", f"{rk.describe(spec)}: min eigenvalue {ev.min():.3g} below -{tol:.3g}")
    # data-covariance builder = pairwise evaluation + documented diagonal
    with np.errstate(all="ignore"):
        B = np.asarray(cov.build_covariance(theta), dtype=float)
    refB = ref + np.diag(rk.ref_diag(spec, X, theta))
    sB = max(np.max(np.abs(refB)), 1e-300)
    if B.shape != (n, n):
        raise Violation(f"builder:{cls}", f"{rk.describe(spec)}: build_covariance has shape {B.shape} for {n} points")
    errB = np.max(np.abs(B - refB))
    errB2 = np.max(np.abs(B - (Kxx + np.diag(rk.ref_diag(spec, X, theta)))))
    ctx.ratio("builder", max(errB, errB2), 1e-12 * sB)
    if B.shape != (n, n) or max(errB, errB2) > 1e-12 * sB:
        raise Violation(f"builder:{cls}", f"{rk.describe(spec)}: build_covariance differs from K(x,x)+diagonal by {max(errB, errB2):.3g} (scale {sB:.3g})")
    if not np.array_equal(B, B.T):
        raise Violation(f"builder-symmetry:{cls}", "build_covariance result not symmetric")
    evB = np.linalg.eigvalsh(B)
    if evB.min() < -100 * n * EPS * np.max(np.abs(B)):
        raise Violation(f"builder-psd:{cls}", f"min eigenvalue of build_covariance {evB.min():.3g}")
    ctx.nontrivial(nontrivial(case))
    events(case, ctx)


def body_gradients(case, ctx):
    X, y, xs, ys, spec, cov, theta = setup(case)
    d, n = case["d"], case["n"]
    cls = classify(spec, d)
    with np.errstate(all="ignore"):
        K, grads = cov.covariance_and_gradients(theta)
        B = np.asarray(cov.build_covariance(theta), dtype=float)
    K = np.asarray(K, dtype=float)
    if len(grads) != theta.size:
        raise Violation(f"gradient-count:{cls}", f"{len(grads)} gradient matrices for {theta.size} hyper-parameters")
    sB = max(np.max(np.abs(B)), 1e-300)
    if np.max(np.abs(K - B)) > 1e-13 * sB:
        raise Violation(f"gradient-value:{cls}", f"covariance_and_gradients K differs from build_covariance by {np.max(np.abs(K - B)):.3g}")
    kinds = rk.param_kinds(spec, n, d)
    span = np.ptp(X, axis=0)
    span = np.where(span > 0, span, 1.0)
    worst = 0.0
    f = lambda th: cov.build_covariance(th)  # noqa: E731
    cp_axis = _cp_axes(spec, n, d)
    for i in range(theta.size):
        if kinds[i] == "log":
            h = 2e-3
        else:
            width = theta[i] if kinds[i] == "width" else theta[i + 1]
            h = 2e-3 * min(abs(width), span[cp_axis[i]])
            if kinds[i] == "width" and h * 4 >= theta[i]:
                h = theta[i] / 16
        with np.errstate(all="ignore"):
            err, tol, conv = numdiff.compare(np.asarray(grads[i], dtype=float), f, theta, i, h)
        if not conv:
            ctx.inconclusive["stencil-not-converged"] += 1
            continue
        tol = max(tol, 1e-13 * sB)
        if kinds[i] != "log":
            # (x - c)/w carries eps*|x| of rounding, which the stencil divides by its step
            tol += 64 * EPS * float(np.max(np.abs(X[:, cp_axis[i]]))) / h * max(float(np.max(np.abs(grads[i]))), 1e-300)
        worst = max(worst, err / tol)
        if not np.isfinite(err) or err > tol:
            role = kinds[i]
            raise Violation(f"gradient:{cls}:{role}", f"{rk.describe(spec)}: d/dtheta[{i}] ({role}) differs from stencil by {err:.3g} (tol {tol:.3g}, scale {np.max(np.abs(grads[i])):.3g})")
    ctx.ratio("gradient", worst, 1.0)
    ctx.nontrivial(nontrivial(case))
    events(case, ctx)


def _cp_axes(spec, n, d):
    """axis of the change-point owning each hyper-parameter (0 where not applicable)"""
    k = spec["k"]
    if k in ("SE", "RQ", "White", "Hetero"):
        return [0] * rk.n_params(spec, n, d)
    out = []
    for p in spec["parts"]:
        out.extend(_cp_axes(p, n, d))
    if k == "CP":
        out.extend([spec["axis"]] * (2 * (len(spec["parts"]) - 1)))
    return out


def body_composite(case, ctx):
    """labels, bounds and parameter counts of a composite are those of its components, concatenated in order"""
    if case.get("user_bounds") and case["kernel"]["k"] in ("Sum", "CP"):
        # some components of a sum / change-point kernel carry bounds specified by the user (in the documented form of their class)
        g = np.random.Generator(np.random.PCG64(int(case["user_bounds"])))
        case = dict(case)
        parts = []
        for p in case["kernel"]["parts"]:
            p = dict(p)
            if p["k"] in ("SE", "RQ", "White") and g.random() < 0.6:
                k = {"SE": case["d"] + 1, "RQ": case["d"] + 2, "White": 1}[p["k"]]
                lo = g.uniform(-6, 0, size=k)
                p["ub"] = [[float(a), float(a + w)] for a, w in zip(lo, g.uniform(0.5, 6, size=k))]
            parts.append(p)
        case["kernel"] = dict(case["kernel"], parts=parts)
    X, y, xs, ys, spec, cov, theta = setup(case)
    d, n = case["d"], case["n"]
    cls = classify(spec, d)
    if np.ptp(y) == 0 or np.any(np.ptp(X, axis=0) == 0):
        raise Inconclusive("degenerate data for bound estimation")
    with np.errstate(all="ignore"):
        cov.estimate_hyperpar_bounds(y)
    labels = list(cov.hyperpar_labels)
    bounds = [tuple(b) for b in cov.bounds]
    if len(labels) != theta.size or len(bounds) != theta.size:
        raise Violation(f"composite-count:{cls}", f"{len(labels)} labels, {len(bounds)} bounds for {theta.size} hyper-parameters")
    if spec["k"] in ("Sum", "CP"):
        exp_labels, exp_bounds = [], []
        for p in spec["parts"]:
            c = rk.build_kernel(p)
            c.pass_spatial_data(X)
            with np.errstate(all="ignore"):
                c.estimate_hyperpar_bounds(y)
            exp_labels.extend(c.hyperpar_labels)
            exp_bounds.extend((tuple(b) for b in p["ub"]) if p.get("ub") else (tuple(b) for b in c.bounds))
            if p.get("ub"):
                ctx.event("component-with-user-bounds:" + p["k"])
        m = len(exp_labels)
        for got, exp in zip(labels[:m], exp_labels):
            if not got.endswith(exp):
                raise Violation(f"composite-labels:{cls}", f"label {got!r} does not end with component label {exp!r}")
        for i, (got, exp) in enumerate(zip(bounds[:m], exp_bounds)):
            if not np.allclose(np.array(got, dtype=float), np.array(exp, dtype=float), rtol=1e-12, atol=0, equal_nan=True):
                raise Violation(f"composite-bounds:{cls}", f"bounds[{i}] = {got} but the component's own bounds are {exp}")
        if spec["k"] == "Sum" and m != theta.size:
            raise Violation(f"composite-count:{cls}", "sum has extra parameters")
        if spec["k"] == "CP":
            ax = spec["axis"]
            lo, hi = X[:, ax].min(), X[:, ax].max()
            # (a data range that is itself a sub-normal number - the shrinker's idea of "distinct points" - has no representable
            # fraction to serve as a width: nothing to judge)
            for j in range(len(spec["parts"]) - 1 if hi - lo > 1e-290 else 0):
                lb, wb = bounds[m + 2 * j], bounds[m + 2 * j + 1]
                if not (lb[0] <= lo + 1e-12 * abs(lo) and lb[1] >= hi - 1e-12 * abs(hi) and wb[0] > 0 and wb[1] > wb[0]):
                    raise Violation(f"composite-cp-bounds:{cls}", f"change-point {j}: location bounds {lb}, width bounds {wb} for data range {(lo, hi)}")
    # value and gradients of a sum are the component sums / concatenation
    if spec["k"] == "Sum":
        off = 0
        tot = 0.0
        allg = []
        for p in spec["parts"]:
            c = rk.build_kernel(p)
            c.pass_spatial_data(X)
            mpar = rk.n_params(p, n, d)
            with np.errstate(all="ignore"):
                Kp, gp = c.covariance_and_gradients(theta[off:off + mpar])
            tot = tot + Kp
            allg.extend(gp)
            off += mpar
        with np.errstate(all="ignore"):
            K, grads = cov.covariance_and_gradients(theta)
        sc = max(np.max(np.abs(tot)), 1e-300)
        if np.max(np.abs(K - tot)) > 1e-14 * sc:
            raise Violation(f"composite-value:{cls}", "sum kernel differs from the sum of its components")
        for i, (g, e) in enumerate(zip(grads, allg)):
            if not np.array_equal(np.asarray(g), np.asarray(e)):
                raise Violation(f"composite-gradient-order:{cls}", f"gradient {i} of the sum is not component gradient {i}")
    # a composite that is reused as an operand must stay what it was: (A + B) + C and (A + B) + D built from the same A + B
    if spec["k"] == "Sum" and len(spec["parts"]) >= 3:
        parts = [rk.build_kernel(p) for p in spec["parts"]]
        base = parts[0] + parts[1]
        ext1 = base + parts[2]
        ext2 = base + rk.build_kernel(spec["parts"][-1])
        want_base = rk.n_params(spec["parts"][0], n, d) + rk.n_params(spec["parts"][1], n, d)
        for name, obj, want in (("base", base, want_base), ("base + C", ext1, want_base + rk.n_params(spec["parts"][2], n, d)),
                                ("base + D", ext2, want_base + rk.n_params(spec["parts"][-1], n, d))):
            obj.pass_spatial_data(X)
            if obj.n_params != want or len(obj.hyperpar_labels) != want:
                raise Violation(f"composite-aliasing:{cls}", f"after forming (A + B) + C and (A + B) + D from one A + B, '{name}' has {obj.n_params} hyper-parameters "
                                                             f"({len(obj.hyperpar_labels)} labels), expected {want}: operands of '+' are shared / modified")
        ctx.event("aliasing-checked")
    ctx.nontrivial(spec["k"] in ("Sum", "CP"))
    events(case, ctx)


@st.composite
def mean_cases(draw):
    d = draw(st.integers(1, 3))
    n = draw(st.integers(1, 15))
    pts = draw(gc.point_sets(n, d, allow_dups=True))
    return {"seed": 0, "d": d, "n": n, "mean": draw(st.sampled_from(["Constant", "Linear", "Quadratic"])),
            "xu": pts["u"], "x_style": pts["style"], "x_log_scale": [draw(st.floats(-3, 3)) for _ in range(d)],
            "x_off": [draw(st.sampled_from([0.0, 1.0, -10.0, 1e3])) for _ in range(d)],
            "yv": [draw(st.floats(-1, 1)) for _ in range(n)], "y_log_scale": draw(st.floats(-3, 3)),
            "y_off": draw(st.sampled_from([0.0, 1.0, 1e4])),
            "mean_u": [draw(gc.unit) for _ in range(1 + 2 * d)],
            "queries": [{"kind": "outside", "u": [draw(st.floats(-3, 4)) for _ in range(d)]} for _ in range(draw(st.integers(1, 4)))]}


def body_means(case, ctx):
    X, y, xs, ys = gc.arrays(case)
    d, n, kind = case["d"], case["n"], case["mean"]
    mean = rk.build_mean(kind)
    mean.pass_spatial_data(X)
    th = gc.mean_theta(case, X, y, ys)[: rk.mean_n_params(kind, d)]
    if mean.n_params != th.size:
        raise Violation(f"mean-n_params:{kind}", f"{mean.n_params} vs documented {th.size}")
    ref = rk.ref_mean(kind, X, X, th)
    full = np.concatenate([th, np.zeros(1 + 2 * d - th.size)])
    th_lin, th_quad = full[1:1 + d], full[1 + d:]
    built = np.asarray(mean.build_mean(th), dtype=float)
    scale = np.max(np.abs(ref)) + np.sum(np.abs(th_lin) * np.ptp(X, axis=0)) + 1e-300
    tol = 1e-12 * scale + 8 * EPS * np.sum(np.abs(th_lin) * np.max(np.abs(X), axis=0)) \
        + (16 * EPS * np.sum(np.abs(th_quad) * np.max(np.abs(X), axis=0) ** 2) if kind == "Quadratic" else 0.0)
    if built.shape != (n,) or np.max(np.abs(built - ref)) > tol:
        raise Violation(f"mean-build:{kind}", f"build_mean differs from the documented mean by {np.max(np.abs(built - ref)):.3g} (tol {tol:.3g})")
    per_point = np.array([float(np.squeeze(mean(X[i:i + 1], th))) for i in range(n)])
    if np.max(np.abs(per_point - built)) > tol:
        raise Violation(f"mean-call:{kind}", f"mean(x_i) differs from build_mean by {np.max(np.abs(per_point - built)):.3g}")
    Q = gc.queries(case, X, xs)
    refq = rk.ref_mean(kind, X, Q, th)
    gotq = np.array([float(np.squeeze(mean(Q[i], th))) for i in range(Q.shape[0])])
    scq = np.max(np.abs(refq)) + 1e-300
    tolq = 1e-12 * scq + 64 * EPS * (np.sum(np.abs(th_lin) * (np.max(np.abs(X), axis=0) + np.max(np.abs(Q), axis=0)))
                                     + (np.sum(np.abs(th_quad) * (np.max(np.abs(X), axis=0) + np.max(np.abs(Q), axis=0)) ** 2) if kind == "Quadratic" else 0))
    if np.max(np.abs(gotq - refq)) > tolq:
        raise Violation(f"mean-query:{kind}", f"mean(q) differs from the documented mean by {np.max(np.abs(gotq - refq)):.3g}")
    m, grads = mean.mean_and_gradients(th)
    if not np.array_equal(np.asarray(m), built) or len(grads) != th.size:
        raise Violation(f"mean-gradients:{kind}", "mean_and_gradients value/count mismatch")
    for i in range(th.size):
        hstep = max(abs(th[i]), ys / (np.max(np.ptp(X, axis=0)) + 1e-300) ** (0 if i == 0 else 1), 1e-3) * 1e-2
        err, tl, conv = numdiff.compare(np.asarray(grads[i], dtype=float), lambda t: mean.build_mean(t), th, i, hstep)
        if conv and err > tl + 1e-9 * np.max(np.abs(grads[i])):
            raise Violation(f"mean-gradient:{kind}", f"d mean / d theta[{i}] differs from stencil by {err:.3g} (tol {tl:.3g})")
    # the gradient arrays handed out are the caller's to work with (scale them, add to them): the mean function answers the same again
    firsts = [np.array(g, dtype=float, copy=True) for g in grads]
    for g in grads:
        if isinstance(g, np.ndarray) and g.flags.writeable:
            with np.errstate(all="ignore"):
                g *= 0.5
                g += 2.0
    m2, grads2 = mean.mean_and_gradients(th)
    b2 = np.asarray(mean.build_mean(th), dtype=float)
    if not np.array_equal(b2, built) or not np.array_equal(np.asarray(m2), built) or any(not np.array_equal(np.asarray(a, dtype=float), b) for a, b in zip(grads2, firsts)):
        raise Violation(f"mean-gradient-buffer:{kind}", "after the caller changed the returned gradient arrays in place, build_mean / mean_and_gradients return other values")
    labels = mean.hyperpar_labels
    if len(labels) != th.size:
        raise Violation(f"mean-labels:{kind}", f"{len(labels)} labels for {th.size} parameters")
    ctx.nontrivial(kind != "Constant" and d >= 2)
    ctx.event(f"mean={kind}")
    ctx.event(f"d={d}")


@st.composite
def _with_earlier_data(draw, base):
    case = draw(base)
    if draw(st.integers(0, 3)) == 0:
        case["earlier_data"] = {"dn": draw(st.sampled_from([-3, -1, 0, 1, 2, 5])), "seed": draw(st.integers(0, 10**6)),
                                "dd": draw(st.sampled_from([0, 0, 0, 1, -1, 2]))}
    return case


# ------------------------------------------------------------------ whole-number points held in integer / single-precision / strided arrays
@st.composite
def form_cases(draw):
    d = draw(st.integers(1, 3))
    n = draw(st.integers(2, 7))
    pts = draw(st.lists(st.tuples(*[st.integers(-8, 8)] * d), min_size=n, max_size=n, unique=True))
    spec = draw(gc.kernel_specs(d, max_depth=2, hetero=True))
    return {"seed": draw(st.integers(0, 2**31)), "d": d, "n": n, "x": [list(t) for t in pts], "kernel": spec,
            "u": [[draw(st.integers(-9, 9)) for _ in range(d)] for _ in range(draw(st.integers(1, 4)))],
            "mean": draw(st.sampled_from(["Constant", "Linear", "Quadratic"])),
            "theta": [draw(st.floats(-1.0, 1.0)) for _ in range(rk.n_params(spec, n, d))],
            "mean_theta": [draw(st.floats(-2, 2)) for _ in range(1 + 2 * d)],
            "form": draw(st.sampled_from(["int64", "int32", "int16", "uint8", "uint16", "uint32", "float32", "fortran", "strided"])),
            # the lattice spacing of the coordinates, and whether they are shifted to be non-negative (unsigned types can hold them)
            "x_step": draw(st.sampled_from([1, 1, 20, 1000, 20000])), "x_shift": draw(st.booleans())}


def body_forms(case, ctx):
    from props.c02_gp_posterior import as_form

    d, n, spec, form = case["d"], case["n"], case["kernel"], case["form"]
    X = np.array(case["x"], dtype=float).reshape(n, d)
    U = np.array(case["u"], dtype=float).reshape(-1, d)
    theta = np.array(case["theta"], dtype=float)
    if rk.has(spec, "CP"):
        # change-point locations / widths: keep the generated numbers but make every width positive
        kinds = rk.param_kinds(spec, n, d)
        theta = np.array([abs(t) + 0.2 if k == "width" else t for t, k in zip(theta, kinds)])
    # the same configuration on a lattice of spacing x_step (shifted to non-negative coordinates): length-scales, change-point
    # locations and widths follow the units
    step, shift = float(case.get("x_step", 1)), (9.0 if case.get("x_shift") else 0.0)
    X, U = (X + shift) * step, (U + shift) * step
    theta = rk.move_theta(theta, rk.param_roles(spec, n, d), step=step, shift=shift)
    tol = 1e-12        # (also for single-precision coordinates: they hold these whole numbers exactly - the same points)
    outs = []
    for f in ("float64", form):
        cov, mean = rk.build_kernel(spec), rk.build_mean(case["mean"])
        with np.errstate(all="ignore"), warnings.catch_warnings():
            warnings.simplefilter("ignore")
            cov.pass_spatial_data(as_form(X, f))
            mean.pass_spatial_data(as_form(X, f))
            K = np.asarray(cov.build_covariance(theta.copy()), dtype=float)
            K2, grads = cov.covariance_and_gradients(theta.copy())
            C = np.asarray(cov(as_form(U, f), as_form(X, f), theta.copy()), dtype=float)
            mth = np.array(case["mean_theta"][: mean.n_params], dtype=float)
            mb = np.asarray(mean.build_mean(mth), dtype=float)
            mq = np.asarray(mean(as_form(U, f)[:1], mth), dtype=float)
        outs.append([K, np.asarray(K2, dtype=float), *[np.asarray(g, dtype=float) for g in grads], C, mb, mq])
    names = ["build_covariance", "covariance_and_gradients K"] + [f"gradient {i}" for i in range(len(outs[0]) - 5)] + ["K(u, x)", "build_mean", "mean(q)"]
    for name, a, b in zip(names, outs[0], outs[1]):
        if a.shape != b.shape:
            raise Violation(f"forms-shape:{form}", f"{rk.describe(spec)}: {name} has shape {b.shape} for {form} points, {a.shape} for float64")
        sc = np.max(np.abs(a)) + 1e-300 if a.size else 1.0
        e = float(np.max(np.abs(a - b))) / (tol * sc) if a.size else 0.0
        ctx.ratio("forms", e, 1.0)
        if not e <= 1:
            raise Violation(f"forms:{form}:{classify(spec, d)}", f"{rk.describe(spec)} / {case['mean']} mean on whole-number points held as {form}: {name} = {b.ravel()[:5].tolist()}, "
                                                               f"for the same points as float64 {a.ravel()[:5].tolist()}")
    ctx.nontrivial(form not in ("fortran", "strided") and (spec["k"] in ("Sum", "CP") or d >= 2))
    ctx.event("form=" + form)
    ctx.event(f"lattice spacing {int(step)}" + (", shifted" if shift else ""))
    ctx.event("kernel=" + ("CP" if rk.has(spec, "CP") else spec["k"]))


def problems(tier):
    return _with_earlier_data(gc.gp_problems(max_n=15, max_d=3, max_m=4, min_n=1))


def problems2(tier):
    return _with_earlier_data(gc.gp_problems(max_n=10, max_d=3, max_m=1, min_n=2))


@st.composite
def _with_user_bounds(draw, base):
    case = draw(base)
    case["user_bounds"] = draw(st.sampled_from([0, 0, draw(st.integers(1, 10**6))]))
    return case


def problems3(tier):
    return _with_user_bounds(gc.gp_problems(max_n=12, max_d=3, max_m=1, min_n=4))


SUBCHECKS = [
    Sub("value", problems, body_value, quick=1600, thorough=60000, shards_quick=8, shards_thorough=16,
        rule="composite or change-point kernel, or d >= 2"),
    Sub("gradients", problems2, body_gradients, quick=1000, thorough=40000, shards_quick=8, shards_thorough=16,
        rule="composite or change-point kernel, or d >= 2"),
    Sub("composite", problems3, body_composite, quick=800, thorough=20000, shards_quick=4, shards_thorough=16,
        rule="sum or change-point kernel"),
    Sub("means", lambda t: mean_cases(), body_means, quick=800, thorough=20000, shards_quick=4, shards_thorough=8,
        rule="non-constant mean in d >= 2"),
    Sub("forms", lambda t: form_cases(), body_forms, quick=800, thorough=20000, shards_quick=4, shards_thorough=16,
        rule="integer-typed points with a composite kernel or d >= 2"),
]
