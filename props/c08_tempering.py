"""C08 - parallel-tempering exchanges are correct and independent of scheduling.

Real ParallelTempering objects with real worker processes.  Exchanges are observed from outside through
return_chains() snapshots taken around every swap() and the attempted / successful counter deltas; the exchange
law is tested with the acceptance probability the harness computes itself; schedule independence is a
metamorphic relation: the same seeds under different injected per-call delay tables must return identical chains.
"""
import warnings

import numpy as np
from hypothesis import strategies as st

from vlib import rngctl
from vlib import samplers as S
from vlib.targets import Target
from vlib.core import Sub, Violation, Inconclusive

RULE = ("histories of take_steps / swap / advance(n, swap_interval) / return_chains on 1..8 chains (Gibbs, Metropolis, PCA, HMC mixed; ladders "
        "sorted, unsorted, with ties); swap-only runs with hundreds of exchange decisions; the same case under 2-3 injected delay schedules; "
        "non-trivial = >= 1 accepted and >= 1 rejected exchange with N >= 3 (exchange law), >= 2 distinct delay schedules with swaps between steps (scheduling)")
ASSUMPTIONS = ["the harness owns the injected delays and hence the relative speed / completion order of the workers, not the OS scheduler: interleavings are sampled, not enumerated",
               "termination is a bounded-time fact under a 60 s per-case watchdog"]
P_FLOOR = 1e-9 / 500.0


@st.composite
def ladders(draw, n):
    kind = draw(st.sampled_from(["sorted", "sorted", "unsorted", "ties"]))
    temps = sorted(10 ** draw(st.floats(0, 1.7)) for _ in range(n))
    temps[0] = 1.0
    if kind == "unsorted":
        temps = list(draw(st.permutations(temps)))
    elif kind == "ties" and n >= 2:
        temps[1] = temps[0]
    return temps


@st.composite
def pt_cases(draw, max_chains=8):
    n = draw(st.sampled_from([3, 2, 4, 5, 3, 1, 8][: (7 if max_chains >= 8 else 6)]))
    base = draw(S.sampler_configs(classes=["gibbs"], max_d=3, bounds="never", temperature="never", target_kinds=("gauss", "mix")))
    d = base["d"]
    chains = []
    for _ in range(n):
        cls = draw(st.sampled_from(["gibbs", "gibbs", "metropolis", "hmc"] + (["pca"] if d >= 2 else [])))
        c = {"cls": cls, "start_u": [draw(st.floats(-2, 2)) for _ in range(d)], "width_log": [draw(st.floats(-0.5, 0.5)) for _ in range(d)],
             "display_progress": draw(st.booleans())}
        # chains may start far apart (a steep posterior, dispersed starts): log-density differences of 1e3 .. 1e7 between the rungs,
        # i.e. exchanges that are certain (probability ratio exp(+1e5)) or impossible
        far = draw(st.sampled_from([1.0, 1.0, 1.0, 1.0, 30.0, 300.0, 3000.0]))
        c["start_u"] = [u * far for u in c["start_u"]]
        if cls == "hmc":
            c["hmc"] = {"eps_log": draw(st.floats(-1.5, -0.5)), "mass": "default", "mass_log": [0.0] * d, "mass_corr": 0.0, "grad": draw(st.booleans())}
        chains.append(c)
    return {"seed": draw(st.integers(0, 2**31)), "d": d, "target": base["target"], "chains": chains, "temps": draw(ladders(n))}


def build_chains(case, sleep_tables=None):
    rngctl.reset(case["seed"])
    out = []
    for k, (c, T) in enumerate(zip(case["chains"], case["temps"])):
        cfg = {"seed": case["seed"] + k, "cls": c["cls"], "d": case["d"], "target": case["target"], "start_u": c["start_u"],
               "width_log": c["width_log"], "T": T, "bounds": None, "display_progress": c["display_progress"], "limits": [], "limit_half": [1.0] * case["d"]}
        if c["cls"] == "hmc":
            cfg["hmc"] = c["hmc"]
        tgt = Target(case["target"], record=False)
        if sleep_tables is not None:
            tgt.sleep_table = sleep_tables[k]
        ch, _, _ = S.build(cfg, target=tgt)
        out.append(ch)
    return out


class PT:
    """context manager making sure no worker outlives a case"""

    def __init__(self, chains):
        from inference.mcmc import ParallelTempering

        with warnings.catch_warnings():
            warnings.simplefilter("ignore")
            self.pt = ParallelTempering(chains=chains)

    def __enter__(self):
        return self.pt

    def __exit__(self, *exc):
        try:
            self.pt.shutdown_evt.set()
            for p in self.pt.processes:
                p.join(timeout=2)
        finally:
            for p in self.pt.processes:
                if p.is_alive():
                    p.terminate()
        return False


def last_state(ch):
    return np.array(ch.get_last(), dtype=float, copy=True), float(ch.probs[-1])


def history(ch):
    return np.array(ch.get_sample(burn=0), dtype=float, copy=True), np.array(ch.get_probabilities(burn=0), dtype=float, copy=True)


def poisson_binomial_tail(probs, s):
    """P(S >= s) and P(S <= s) for a sum of independent Bernoulli(p_k) by dynamic programming"""
    dist = np.zeros(len(probs) + 1)
    dist[0] = 1.0
    for p in probs:
        dist[1:] = dist[1:] * (1 - p) + dist[:-1] * p
        dist[0] *= (1 - p)
    return float(dist[s:].sum()), float(dist[: s + 1].sum())


@st.composite
def swap_cases(draw):
    case = draw(pt_cases())
    case["rounds"] = draw(st.integers(3, 25))
    case["steps_between"] = draw(st.sampled_from([0, 0, 1, 2, 5]))
    return case


def body_swaps(case, ctx):
    N = len(case["chains"])
    tgt = Target(case["target"], record=False)
    temps = np.array(case["temps"])
    decisions = []      # (a, accepted)
    n_acc = n_rej = 0
    with PT(build_chains(case)) as pt:
        att0, suc0 = pt.attempted_swaps.copy(), pt.successful_swaps.copy()
        for rnd in range(case["rounds"]):
            if case["steps_between"]:
                pt.take_steps(case["steps_between"])
            before = pt.return_chains()
            pt.swap()
            after = pt.return_chains()
            if len(before) != N or len(after) != N:
                raise Violation("return-count", f"{len(after)} chains returned for {N}")
            att, suc = pt.attempted_swaps - att0, pt.successful_swaps - suc0
            att0, suc0 = pt.attempted_swaps.copy(), pt.successful_swaps.copy()
            pairs = [tuple(int(v) for v in p) for p in np.argwhere(att > 0)]
            flat = [i for p in pairs for i in p]
            if any(i == j for i, j in pairs) or len(set(flat)) != len(flat) or len(pairs) > N // 2 or np.any(att > 1):
                raise Violation("pairs-not-disjoint", f"round {rnd}: proposed pairs {pairs} for {N} chains")
            if len(pairs) != N // 2:
                raise Violation("pairs-incomplete", f"round {rnd}: {len(pairs)} pairs proposed for {N} chains")
            swapped = [tuple(int(v) for v in p) for p in np.argwhere(suc > 0)]
            if any(p not in pairs for p in swapped) or np.any(suc > 1):
                raise Violation("success-without-attempt", f"round {rnd}: successful {swapped}, attempted {pairs}")
            pos_b = [last_state(c) for c in before]
            pos_a = [last_state(c) for c in after]
            L = [tgt.logp(p[0]) for p in pos_b]
            for k in range(N):
                # stored tempered probability of the current point is consistent before the exchange
                if abs(pos_b[k][1] - L[k] / temps[k]) > 1e-12 * (abs(L[k] / temps[k]) + 1):
                    raise Violation("stale-probability", f"round {rnd}: chain {k} last log-probability {pos_b[k][1]!r} vs own evaluation / T {L[k] / temps[k]!r}")
            partner = {}
            for i, j in swapped:
                partner[i], partner[j] = j, i
            for k in range(N):
                hb, ha = history(before[k]), history(after[k])
                if k in partner:
                    j = partner[k]
                    if not np.array_equal(pos_a[k][0], pos_b[j][0]):
                        raise Violation("exchange-position", f"round {rnd}: after the accepted exchange ({k},{j}) chain {k} holds {pos_a[k][0]}, chain {j} held {pos_b[j][0]}")
                    want = L[j] / temps[k]
                    if abs(pos_a[k][1] - want) > 1e-12 * (abs(want) + 1):
                        raise Violation("exchange-probability", f"round {rnd}: chain {k} (T={temps[k]}) received a point with log-density {L[j]!r}; stored {pos_a[k][1]!r}, expected {want!r}")
                    if not (np.array_equal(hb[0][:-1], ha[0][:-1]) and np.array_equal(hb[1][:-1], ha[1][:-1])) or hb[0].shape != ha[0].shape:
                        raise Violation("exchange-history", f"round {rnd}: the exchange changed earlier samples / the length of chain {k}")
                else:
                    if not (np.array_equal(hb[0], ha[0]) and np.array_equal(hb[1], ha[1])):
                        raise Violation("bystander-changed", f"round {rnd}: chain {k} took no part in an accepted exchange but its history changed")
            for i, j in pairs:
                a = min(1.0, float(np.exp(min((1 / temps[i] - 1 / temps[j]) * (L[j] - L[i]), 50.0))))
                acc = (i, j) in swapped
                if a >= 1.0 and not acc:
                    raise Violation("certain-exchange-refused", f"round {rnd}: pair ({i},{j}) T=({temps[i]:.3g},{temps[j]:.3g}) L=({L[i]:.4g},{L[j]:.4g}) has probability 1 but was not exchanged")
                if a < np.exp(-45) and acc:
                    raise Violation("impossible-exchange-made", f"round {rnd}: pair ({i},{j}) has probability {a:.3g} but was exchanged")
                if np.exp(-45) <= a < 1.0:
                    decisions.append((a, acc))
                n_acc += acc
                n_rej += (not acc)
        pt.shutdown()
        alive = [p.is_alive() for p in pt.processes]
        if any(alive):
            raise Violation("workers-alive-after-shutdown", f"{sum(alive)} of {N} workers still alive after shutdown()")
    if decisions:
        probs = [a for a, _ in decisions]
        s = int(sum(acc for _, acc in decisions))
        hi, lo = poisson_binomial_tail(probs, s)
        p = min(1.0, 2 * min(hi, lo))
        ctx.stat(test="poisson-binomial", what=f"{len(decisions)} uncertain exchange decisions, {s} accepted, expected {sum(probs):.2f}", p=p, threshold=P_FLOOR)
        ctx.add("uncertain_decisions", len(decisions))
        ctx.add("accepted_minus_expected", s - sum(probs))
        ctx.add("variance", sum(a * (1 - a) for a in probs))
        if p < P_FLOOR:
            raise Violation("exchange-law", f"{s} of {len(decisions)} uncertain exchanges accepted, expected {sum(probs):.2f} (exact Poisson-binomial p = {p:.3g})")
    ctx.nontrivial(n_acc >= 1 and n_rej >= 1 and N >= 3)
    ctx.event(f"N={N}")
    ctx.event("ladder-sorted" if list(temps) == sorted(temps) else "ladder-unsorted")
    for c in case["chains"]:
        ctx.event("cls=" + c["cls"])


@st.composite
def advance_cases(draw):
    case = draw(pt_cases())
    ops = []
    for _ in range(draw(st.integers(1, 4))):
        k = draw(st.sampled_from(["advance", "advance", "take_steps", "swap"]))
        if k == "advance":
            ops.append({"op": k, "n": draw(st.sampled_from([0, 1, 7, 10, 23, 40, 60])), "interval": draw(st.sampled_from([1, 3, 10, 10, 25]))})
        elif k == "take_steps":
            ops.append({"op": k, "n": draw(st.integers(0, 12))})
        else:
            ops.append({"op": k})
    case["ops"] = ops
    return case


def body_advance(case, ctx):
    N = len(case["chains"])
    with PT(build_chains(case)) as pt:
        expected = 1
        for op in case["ops"]:
            att0 = pt.attempted_swaps.sum()
            with warnings.catch_warnings():
                warnings.simplefilter("ignore")
                if op["op"] == "advance":
                    pt.advance(op["n"], swap_interval=op["interval"])
                    expected += op["n"]
                    rounds = op["n"] // op["interval"]
                elif op["op"] == "take_steps":
                    pt.take_steps(op["n"])
                    expected += op["n"]
                    rounds = 0
                else:
                    pt.swap()
                    rounds = 1
            got_rounds = (pt.attempted_swaps.sum() - att0) / max(N // 2, 1) if N >= 2 else 0
            if N >= 2 and got_rounds != rounds:
                raise Violation("swap-rounds", f"{op}: {got_rounds} exchange rounds took place, expected {rounds}")
            chains = pt.return_chains()
            if len(chains) != N:
                raise Violation("return-count", f"{len(chains)} chains returned for {N}")
            for k, c in enumerate(chains):
                s, p = history(c)
                if c.chain_length != expected or s.shape[0] != expected or p.shape[0] != expected:
                    raise Violation("advance-length", f"{op}: chain {k} has chain_length {c.chain_length}, {s.shape[0]} samples, {p.shape[0]} probabilities; expected {expected}")
                if abs(1.0 / c.inv_temp - case["temps"][k]) > 1e-12 * case["temps"][k]:
                    raise Violation("chain-order", f"returned chain {k} has temperature {1 / c.inv_temp}, constructed with {case['temps'][k]}")
        pt.shutdown()
        if any(p.is_alive() for p in pt.processes):
            raise Violation("workers-alive-after-shutdown", "a worker is alive after shutdown()")
    ctx.nontrivial(N >= 2 and any(o["op"] == "advance" and o["n"] % o["interval"] != 0 for o in case["ops"]))
    ctx.event(f"N={N}")
    for o in case["ops"]:
        if o["op"] == "advance":
            ctx.event("interval>n" if o["interval"] > o["n"] else ("non-multiple" if o["n"] % o["interval"] else "multiple"))


@st.composite
def schedule_cases(draw):
    case = draw(pt_cases(max_chains=5))
    N = len(case["chains"])
    case["n"] = draw(st.sampled_from([6, 12, 20]))
    case["interval"] = draw(st.sampled_from([1, 2, 3, 5]))
    scheds = []
    for _ in range(draw(st.integers(2, 3))):
        kind = draw(st.sampled_from(["none", "random", "one-slow", "reverse"]))
        tables = []
        for k in range(N):
            if kind == "none":
                tables.append([0.0])
            elif kind == "random":
                tables.append([draw(st.sampled_from([0.0, 0.0, 0.0005, 0.002])) for _ in range(7)])
            elif kind == "one-slow":
                tables.append([0.002] if k == case["seed"] % N else [0.0])
            else:
                tables.append([0.0004 * (N - k)])
        scheds.append({"kind": kind, "tables": tables})
    case["schedules"] = scheds
    return case


def body_schedule(case, ctx):
    results = []
    for sched in case["schedules"]:
        with PT(build_chains(case, sleep_tables=sched["tables"])) as pt:
            with warnings.catch_warnings():
                warnings.simplefilter("ignore")
                pt.advance(case["n"], swap_interval=case["interval"])
            chains = pt.return_chains()
            results.append(([history(c) for c in chains], pt.successful_swaps.copy()))
            pt.shutdown()
    ref, ref_swaps = results[0]
    for k, (res, swaps) in enumerate(results[1:], start=1):
        for i, (a, b) in enumerate(zip(ref, res)):
            if a[0].shape != b[0].shape or not (np.array_equal(a[0], b[0]) and np.array_equal(a[1], b[1])):
                raise Violation("schedule-dependent", f"chain {i}: identical seeds but delay schedule '{case['schedules'][k]['kind']}' returns a different chain than '{case['schedules'][0]['kind']}'")
        if not np.array_equal(swaps, ref_swaps):
            raise Violation("schedule-dependent", f"successful-swap counters differ between delay schedules")
    kinds = {s["kind"] for s in case["schedules"]}
    ctx.nontrivial(len(kinds) >= 2 and case["n"] // case["interval"] >= 2 and len(case["chains"]) >= 2)
    ctx.event(f"N={len(case['chains'])}")
    for kd in kinds:
        ctx.event("schedule=" + kd)
    ctx.add("successful_swaps", float(ref_swaps.sum()))


# ------------------------------------------------------------------ pairings and conservation on long ladders
@st.composite
def ladder_cases(draw):
    n = draw(st.one_of(st.integers(6, 14), st.sampled_from([7, 9, 10, 11, 16])))
    d = draw(st.integers(1, 2))
    chains = [{"cls": "gibbs", "start_u": [draw(st.floats(-2, 2)) for _ in range(d)], "width_log": [0.0] * d, "display_progress": False} for _ in range(n)]
    # a nearly flat density: almost every proposed exchange is accepted, so a chain named in two pairs duplicates / loses a point
    target = {"kind": "gauss", "d": d, "mean": [0.0] * d, "chol": [[1e3 if i == j else 0.0 for j in range(d)] for i in range(d)]}
    return {"seed": draw(st.integers(0, 2**31)), "d": d, "target": target, "chains": chains, "temps": draw(ladders(n)),
            "pairings": draw(st.integers(50, 400)), "rounds": draw(st.integers(5, 30))}


def body_ladder(case, ctx):
    N = len(case["chains"])
    leftovers3 = 0
    with PT(build_chains(case)) as pt:
        for k in range(case["pairings"]):
            pairs = [tuple(int(v) for v in p) for p in pt.tight_pairs()]
            flat = [i for p in pairs for i in p]
            if len(set(flat)) != len(flat) or any(not (0 <= i < N) for i in flat) or any(i == j for i, j in pairs):
                raise Violation("pairs-not-disjoint", f"N={N}: tight_pairs() call {k} returned {pairs}")
            if len(pairs) != N // 2:
                raise Violation("pairs-incomplete", f"N={N}: tight_pairs() call {k} returned {len(pairs)} pairs")
            leftovers3 += sum(1 for i, j in pairs if abs(i - j) > 2) >= 2
        start = sorted(tuple(np.asarray(c.get_last(), dtype=float)) for c in pt.return_chains())
        att0 = pt.attempted_swaps.copy()
        for rnd in range(case["rounds"]):
            pt.swap()
            att = pt.attempted_swaps - att0
            att0 = pt.attempted_swaps.copy()
            if np.any(att > 1) or np.any((att > 0).sum(axis=0) + (att > 0).sum(axis=1) > 1):
                raise Violation("pairs-not-disjoint", f"N={N}: swap round {rnd} proposed pairs {[tuple(int(v) for v in p) for p in np.argwhere(att > 0)]}")
            now = sorted(tuple(np.asarray(c.get_last(), dtype=float)) for c in pt.return_chains())
            if now != start:
                raise Violation("exchange-not-a-permutation", f"N={N}: after {rnd + 1} exchange rounds without steps the chains' current points are no longer "
                                                              f"a permutation of the starting points (lost {sorted(set(start) - set(now))[:2]}, new {sorted(set(now) - set(start))[:2]})")
        pt.shutdown()
    ctx.nontrivial(N >= 7 and leftovers3 >= 1)
    ctx.event(f"N={N}")
    ctx.event("rounds-with->=2-far-pairs" if leftovers3 else "only-tight-pairs")


SUBCHECKS = [
    Sub("swaps", lambda t: swap_cases(), body_swaps, quick=96, thorough=3000, shards_quick=16, shards_thorough=16, weight=60,
        rule=">= 1 accepted and >= 1 rejected exchange with N >= 3"),
    Sub("advance", lambda t: advance_cases(), body_advance, quick=64, thorough=2000, shards_quick=16, shards_thorough=16, weight=60,
        rule="N >= 2 and an advance whose n is not a multiple of swap_interval"),
    Sub("schedule", lambda t: schedule_cases(), body_schedule, quick=32, thorough=1000, shards_quick=16, shards_thorough=16, weight=100,
        rule=">= 2 distinct delay schedules, >= 2 exchange rounds, N >= 2"),
    Sub("ladder", lambda t: ladder_cases(), body_ladder, quick=48, thorough=1500, shards_quick=16, shards_thorough=16, weight=80,
        rule="N >= 7 chains and a pairing round in which >= 2 pairs had to be formed from chains left over by the tight pairing"),
]
